"""Semantics-preserving canonicalisation of a parsed module, applied before any rule looks at it.

The rules recognise the idioms this code base uses.  Everyday edits replace one idiom by an equivalent one
(a conditional expression for default-then-if, dict.get for an `in` test, a literal loop for four repeated
statements, a temporary or an alias more or less, a tiny extracted helper).  Each rewrite below maps such a
variant onto one canonical form and is valid for *every* program it applies to: it is guarded by syntactic
side conditions under which the rewritten function computes the same thing in the same order.  Nothing here
can make a wrong program look right: a rewrite that does not apply leaves the source as it is.

N1  x = A if c else B            ->  x = B; if c: x = A          (B a constant / name / module attribute)
                                     x = A; if not c: x = B      (A such, B not)
                                     if c: x = A  else: x = B    (otherwise);  `return A if c else B` likewise
N2  x = kw.get(k[, dflt])        ->  x = dflt; if k in kw: x = kw[k]          (kw the **keyword dict, k a constant, dflt simple)
N3  x = {k: v for a in <literal>} -> x = {}; for a in <literal>: x[k] = v
N4  for a, b in <literal of tuples>: body  ->  body repeated with the constants substituted
N5  _helper(args) whose body is `return <expr>`  ->  <expr> with the arguments substituted  (same module, private)
N6  a = <access path>; ... a ...  ->  ... <access path> ...   (single definition, uses lexically after it, path not
                                      written in between)
N7  t = <expr>; S(t)             ->  S(<expr>)               (t used once, in the very next statement, nothing with
                                      an effect evaluated before it)
N10 helper(args) as a statement, helper a short loop-free statement sequence of this module that returns nothing
                                 ->  its statements with the arguments substituted and its locals renamed
N11 NAME (module-level, bound once to an int / str literal, not a name the rules know) -> the literal
N12 str('lit') -> 'lit'; int(<int expression>) -> the expression; bool(<comparison>) and bool(x) in a condition -> x
N13 x: T = v -> x = v (annotated locals)
N14 f(a, q=b) with f a package function whose positional parameter list is known -> f(a, b)  (keywords that name
    positional parameters, no hole left, arguments evaluated in the same order)
N15 if k in d: d[k].append(x) else: d[k] = [x]   ->   if k not in d: d[k] = []   d[k].append(x)   (and the mirrored form;
    likewise  if k in d: d[k] += 1 else: d[k] = 1   ->   if k not in d: d[k] = 0   d[k] += 1)
N16 (a := <access path or pure expression>) ... a ...  ->  the expression in place of the binding and of every use
    (a bound only there, uses lexically after it, the operands not written in between)
N17 x.data.update({k: v, ...}) / x.data.update(k=v, ...) / x.data.update((k, v) for a in it)  ->  x.data[k] = v ... (a loop for the
    generator form; values must not read the dictionary)
N19 v = []; for x in it: [if c:] v.append(e)   ->   v = [e for x in it if c]      (adjacent, x not used afterwards, v not read in the loop)
N20 f'..{a}..{b:d}'  ->  '..%s..%d' % (a, b)      (plain replacement fields only)
N21 while True: if c: break; body   ->   while not c: body          (the guard is the first statement, the loop has no else)
N22 if True: A else: B -> A;  if False: A else: B -> B     (after N11: code under a module-level switch that is False is not there)
N23 assert <expression without effects>  ->  nothing
N24 opts = frozenset(kw) / set(kw) / tuple(kw) / list(kw) / kw.keys()  ...  k in opts   ->   k in kw      (kw the ** dictionary, never written)
    kw = dict(kw)  ->  nothing      (the ** dictionary is the function's own already)
N25 try: x = d[k]  except KeyError: x = D   ->   x = D; if k in d: x = d[k]      (d a name, k a constant or a name, D simple)
N26 try: d[k] += v  except KeyError: d[k] = v'   ->   if k in d: d[k] += v  else: d[k] = v'     (then N15);  likewise
    try: d[k].append(x)  except KeyError: d[k] = [x]
N18 imports of package modules under another name (`from . import trees as T`, `import trees.trees as T`) and direct imports
    of their functions / constants (`from .trees import children`)  ->  `from . import trees` and `trees.children`  (scopes that
    bind the name themselves are left alone)
N5x alias.helper(args) / helper(args), helper a public or foreign-module function whose body is `return <expr>` and
    whose name no rule knows  ->  <expr>, module-level names of the helper's module qualified for the caller
N8  list(reversed(x)) -> x[::-1];  sorted(d.keys()) / for k in d.keys() / k in d.keys()  ->  without .keys()
"""
import ast
import copy

SIMPLE_DEFAULT = (ast.Constant, ast.Name)
PURE_BUILTINS = {'len', 'max', 'min', 'sum', 'sorted', 'list', 'tuple', 'set', 'dict', 'reversed', 'str', 'int',
                 'abs', 'range', 'enumerate', 'zip', 'any', 'all', 'bool', 'frozenset', 'repr', 'float', 'unicode'}
PURE_METHODS = {'index', 'get', 'count', 'keys', 'items', 'values', 'startswith', 'endswith', 'split', 'strip',
                'lstrip', 'rstrip', 'join', 'find', 'rfind', 'lower', 'upper', 'isdigit', 'format', 'replace',
                'copy', 'istitle', 'isupper', 'islower'}
BLOCK_FIELDS = ('body', 'orelse', 'finalbody')


def _names(e):
    return set(n.id for n in ast.walk(e) if isinstance(n, ast.Name))


def _simple_default(e):
    """Evaluating e cannot fail and has no effect: constant, name, attribute of a name (module constant)."""
    if isinstance(e, SIMPLE_DEFAULT):
        return True
    if isinstance(e, ast.UnaryOp) and isinstance(e.op, ast.USub) and isinstance(e.operand, ast.Constant):
        return True
    return isinstance(e, ast.Attribute) and isinstance(e.value, ast.Name) and e.attr.isupper()


def _is_path(e):
    if isinstance(e, ast.Name):
        return True
    if isinstance(e, ast.Attribute):
        return _is_path(e.value)
    if isinstance(e, ast.Subscript):
        s = e.slice
        ok = isinstance(s, ast.Constant) or (isinstance(s, ast.UnaryOp) and isinstance(s.operand, ast.Constant))
        return ok and _is_path(e.value)
    return False


def _pure(e):
    """No side effect and no dependence on evaluation order (reads only)."""
    for n in ast.walk(e):
        if isinstance(n, ast.Call):
            f = n.func
            if isinstance(f, ast.Name) and f.id in PURE_BUILTINS:
                continue
            if isinstance(f, ast.Attribute) and f.attr in PURE_METHODS:
                continue
            return False
        if isinstance(n, (ast.NamedExpr, ast.Yield, ast.YieldFrom, ast.Await, ast.Lambda)):
            return False
    return True


def _loc(new, old):
    ast.copy_location(new, old)
    for n in ast.walk(new):
        if not hasattr(n, 'lineno') and isinstance(n, (ast.expr, ast.stmt)):
            ast.copy_location(n, old)
    ast.fix_missing_locations(new)
    return new


def _assign(target, value, at):
    t = copy.deepcopy(target)
    for n in ast.walk(t):
        if isinstance(n, (ast.Name, ast.Attribute, ast.Subscript)) and n is t:
            n.ctx = ast.Store()
    return _loc(ast.Assign(targets=[t], value=copy.deepcopy(value)), at)


class _Subst(ast.NodeTransformer):
    def __init__(self, mapping):
        self.mapping = mapping

    def visit_Name(self, n):
        if n.id in self.mapping and isinstance(n.ctx, ast.Load):
            return _loc(copy.deepcopy(self.mapping[n.id]), n)
        return n


def _own_walk(node):
    """Walk without entering nested function / class definitions."""
    todo = list(ast.iter_child_nodes(node))
    while todo:
        n = todo.pop()
        yield n
        if isinstance(n, (ast.FunctionDef, ast.AsyncFunctionDef, ast.ClassDef)):
            continue
        todo.extend(ast.iter_child_nodes(n))


def _stmt_lists(node):
    """Every statement list of a function (nested compound statements included, nested defs excluded)."""
    out = []
    todo = [node]
    while todo:
        n = todo.pop()
        for fld in BLOCK_FIELDS:
            lst = getattr(n, fld, None)
            if isinstance(lst, list) and lst and isinstance(lst[0], ast.stmt):
                out.append(lst)
                for s in lst:
                    if not isinstance(s, (ast.FunctionDef, ast.AsyncFunctionDef, ast.ClassDef)):
                        todo.append(s)
        if isinstance(n, ast.Try):
            for h in n.handlers:
                todo.append(h)
    return out


# --------------------------------------------------------------------------- expression level (N8)

def _int_typed(e, int_names):
    """e is certainly an int: int literals, len(...), loop counters, and + - * // over those"""
    if isinstance(e, ast.Constant):
        return isinstance(e.value, int) and not isinstance(e.value, bool)
    if isinstance(e, ast.Name):
        return e.id in int_names
    if isinstance(e, ast.Call) and isinstance(e.func, ast.Name) and e.func.id == 'len':
        return True
    if isinstance(e, ast.BinOp) and isinstance(e.op, (ast.Add, ast.Sub, ast.Mult, ast.FloorDiv)):
        return _int_typed(e.left, int_names) and _int_typed(e.right, int_names)
    if isinstance(e, ast.UnaryOp) and isinstance(e.op, ast.USub):
        return _int_typed(e.operand, int_names)
    return False


class _ExprCanon(ast.NodeTransformer):
    int_names = frozenset()

    def visit_FunctionDef(self, n):
        # names that can only hold ints: indices of enumerate(...) and variables of range(...) loops, if bound nowhere else
        cand = {}
        stores = {}
        for x in _own_walk(n):
            if isinstance(x, ast.Name) and isinstance(x.ctx, ast.Store):
                stores[x.id] = stores.get(x.id, 0) + 1
            if isinstance(x, (ast.For, ast.comprehension)) and isinstance(x.iter, ast.Call) and isinstance(x.iter.func, ast.Name):
                if x.iter.func.id == 'enumerate' and isinstance(x.target, ast.Tuple) and x.target.elts \
                        and isinstance(x.target.elts[0], ast.Name):
                    cand[x.target.elts[0].id] = cand.get(x.target.elts[0].id, 0) + 1
                elif x.iter.func.id == 'range' and isinstance(x.target, ast.Name):
                    cand[x.target.id] = cand.get(x.target.id, 0) + 1
        old = self.int_names
        self.int_names = frozenset(k for k, v in cand.items() if stores.get(k, 0) == v)
        self.generic_visit(n)
        self.int_names = old
        return n

    def _strip_bool(self, e):
        while isinstance(e, ast.Call) and isinstance(e.func, ast.Name) and e.func.id == 'bool' and len(e.args) == 1 \
                and not e.keywords:
            e = e.args[0]
        return e

    def _nnf(self, e, neg=False):
        """Negations pushed inwards (De Morgan), double negations dropped: the same truth value, the same operands
        evaluated in the same order with the same short cuts - valid where only the truth value is used (a condition)."""
        e = self._strip_bool(e)
        if isinstance(e, ast.UnaryOp) and isinstance(e.op, ast.Not):
            return self._nnf(e.operand, not neg)
        if isinstance(e, ast.BoolOp):
            op = e.op
            if neg:
                op = ast.Or() if isinstance(e.op, ast.And) else ast.And()
            return _loc(ast.BoolOp(op=op, values=[self._nnf(v, neg) for v in e.values]), e)
        return _loc(ast.UnaryOp(op=ast.Not(), operand=e), e) if neg else e

    def _cond(self, t):
        if any(isinstance(x, ast.UnaryOp) and isinstance(x.op, ast.Not) and isinstance(self._strip_bool(x.operand), (ast.BoolOp, ast.UnaryOp))
               for x in ast.walk(t)):
            return self._nnf(t)
        return self._strip_bool(t)

    def visit_If(self, n):
        self.generic_visit(n)
        n.test = self._cond(n.test)
        return n

    def visit_While(self, n):
        self.generic_visit(n)
        n.test = self._cond(n.test)
        return n

    def visit_IfExp(self, n):
        self.generic_visit(n)
        n.test = self._cond(n.test)
        return n

    def visit_UnaryOp(self, n):
        self.generic_visit(n)
        if isinstance(n.op, ast.Not):
            n.operand = self._strip_bool(n.operand)
        return n

    def visit_Call(self, n):
        self.generic_visit(n)
        f = n.func
        # N12: conversions that cannot change the value
        if isinstance(f, ast.Name) and len(n.args) == 1 and not n.keywords:
            a = n.args[0]
            if f.id == 'str' and isinstance(a, ast.Constant) and isinstance(a.value, str):
                return a
            if f.id == 'int' and _int_typed(a, self.int_names):
                return a
            if f.id == 'bool' and isinstance(a, (ast.Compare,)) :
                return a
            if f.id == 'bool' and isinstance(a, ast.UnaryOp) and isinstance(a.op, ast.Not):
                return a
        # list(reversed(x)) -> x[::-1]
        if isinstance(f, ast.Name) and f.id == 'list' and len(n.args) == 1 and not n.keywords:
            a = n.args[0]
            if isinstance(a, ast.Call) and isinstance(a.func, ast.Name) and a.func.id == 'reversed' \
                    and len(a.args) == 1 and not a.keywords:
                return _loc(ast.Subscript(value=a.args[0], slice=ast.Slice(
                    lower=None, upper=None, step=ast.UnaryOp(op=ast.USub(), operand=ast.Constant(1))),
                    ctx=ast.Load()), n)
        # sorted(d.keys()) / list(d.keys()) / set(d.keys()) / len(d.keys())  -> without .keys()
        if isinstance(f, ast.Name) and f.id in ('sorted', 'list', 'set', 'len', 'tuple', 'frozenset') and n.args:
            a = n.args[0]
            if _is_keys(a):
                n.args[0] = a.func.value
        return n

    def visit_For(self, n):
        self.generic_visit(n)
        if _is_keys(n.iter):
            n.iter = n.iter.func.value
        return n

    def visit_comprehension(self, n):
        self.generic_visit(n)
        if _is_keys(n.iter):
            n.iter = n.iter.func.value
        return n

    def visit_Compare(self, n):
        self.generic_visit(n)
        if len(n.ops) == 1 and isinstance(n.ops[0], (ast.In, ast.NotIn)) and _is_keys(n.comparators[0]):
            n.comparators[0] = n.comparators[0].func.value
        return n


def _is_keys(e):
    return isinstance(e, ast.Call) and isinstance(e.func, ast.Attribute) and e.func.attr == 'keys' \
        and not e.args and not e.keywords and _is_path(e.func.value)


# --------------------------------------------------------------------------- statement level

def _n1_ifexp(st):
    if isinstance(st, ast.Return) and isinstance(st.value, ast.IfExp):
        v = st.value
        return [_loc(ast.If(test=copy.deepcopy(v.test),
                            body=[_loc(ast.Return(value=copy.deepcopy(v.body)), st)],
                            orelse=[_loc(ast.Return(value=copy.deepcopy(v.orelse)), st)]), st)]
    if not (isinstance(st, ast.Assign) and len(st.targets) == 1 and isinstance(st.value, ast.IfExp)):
        return None
    t, v = st.targets[0], st.value
    if isinstance(t, ast.Name) and t.id not in _names(v):
        if _simple_default(v.orelse):
            return [_assign(t, v.orelse, st),
                    _loc(ast.If(test=copy.deepcopy(v.test), body=[_assign(t, v.body, st)], orelse=[]), st)]
        if _simple_default(v.body):
            return [_assign(t, v.body, st),
                    _loc(ast.If(test=ast.UnaryOp(op=ast.Not(), operand=copy.deepcopy(v.test)),
                                body=[_assign(t, v.orelse, st)], orelse=[]), st)]
    if isinstance(t, (ast.Name, ast.Attribute, ast.Subscript)):
        return [_loc(ast.If(test=copy.deepcopy(v.test), body=[_assign(t, v.body, st)],
                            orelse=[_assign(t, v.orelse, st)]), st)]
    return None


def _n2_dictget(st, kwarg=None):
    if not (isinstance(st, ast.Assign) and len(st.targets) == 1 and isinstance(st.targets[0], ast.Name)):
        return None
    v = st.value
    if not (isinstance(v, ast.Call) and isinstance(v.func, ast.Attribute) and v.func.attr == 'get'
            and isinstance(v.func.value, ast.Name) and not v.keywords and 1 <= len(v.args) <= 2
            and isinstance(v.args[0], ast.Constant)):
        return None
    d = v.func.value
    if d.id == st.targets[0].id or d.id != kwarg:
        return None           # only the **keyword dictionary is known to be a dict
    dflt = v.args[1] if len(v.args) == 2 else ast.Constant(None)
    if not _simple_default(dflt):
        return None
    t = st.targets[0]
    test = ast.Compare(left=copy.deepcopy(v.args[0]), ops=[ast.In()], comparators=[copy.deepcopy(d)])
    sub = ast.Subscript(value=copy.deepcopy(d), slice=copy.deepcopy(v.args[0]), ctx=ast.Load())
    return [_assign(t, dflt, st), _loc(ast.If(test=test, body=[_assign(t, sub, st)], orelse=[]), st)]


def _literal_seq(e):
    """List of element asts if e is a literal list/tuple of constants / simple defaults / tuples of those."""
    if not isinstance(e, (ast.List, ast.Tuple)) or not e.elts or len(e.elts) > 8:
        return None
    for x in e.elts:
        if isinstance(x, ast.Tuple):
            if not all(_simple_default(y) and not isinstance(y, ast.Name) for y in x.elts):
                return None
        elif not (_simple_default(x) and not isinstance(x, ast.Name)):
            return None
    return list(e.elts)


def _n3_dictcomp(st):
    if not (isinstance(st, ast.Assign) and len(st.targets) == 1 and isinstance(st.targets[0], ast.Name)
            and isinstance(st.value, ast.DictComp) and len(st.value.generators) == 1):
        return None
    g = st.value.generators[0]
    if g.ifs or g.is_async or _literal_seq(g.iter) is None:
        return None
    t = st.targets[0]
    bound = _names(g.target)
    if t.id in bound or t.id in _names(st.value.key) | _names(st.value.value):
        return None
    store = ast.Subscript(value=ast.Name(id=t.id, ctx=ast.Load()), slice=copy.deepcopy(st.value.key), ctx=ast.Store())
    body = _loc(ast.Assign(targets=[store], value=copy.deepcopy(st.value.value)), st)
    loop = _loc(ast.For(target=copy.deepcopy(g.target), iter=copy.deepcopy(g.iter), body=[body], orelse=[]), st)
    for n in ast.walk(loop.target):
        if isinstance(n, ast.Name):
            n.ctx = ast.Store()
    return [_assign(t, ast.Dict(keys=[], values=[]), st), loop]


def _n4_unroll(st, func):
    if not (isinstance(st, ast.For) and not st.orelse and isinstance(st.target, ast.Tuple)
            and all(isinstance(x, ast.Name) for x in st.target.elts)):
        return None
    elts = _literal_seq(st.iter)
    if elts is None or not all(isinstance(x, ast.Tuple) and len(x.elts) == len(st.target.elts) for x in elts):
        return None
    tnames = [x.id for x in st.target.elts]
    size = sum(1 for s in st.body for _ in ast.walk(s))
    if size > 120:
        return None
    for s in st.body:
        for n in [s] + list(_own_walk(s)):
            if isinstance(n, (ast.Break, ast.Continue, ast.Return, ast.FunctionDef, ast.Lambda, ast.Yield,
                              ast.YieldFrom)):
                return None
            if isinstance(n, ast.Name) and n.id in tnames and not isinstance(n.ctx, ast.Load):
                return None
    # the loop variables must not be read outside the loop (reads inside another loop / comprehension that
    # binds the same name itself are that loop's own)
    def binders(name):
        out = []
        for n in _own_walk(func):
            if isinstance(n, ast.For) and any(isinstance(x, ast.Name) and x.id == name for x in ast.walk(n.target)):
                out.append(n)
            elif isinstance(n, (ast.ListComp, ast.SetComp, ast.DictComp, ast.GeneratorExp)) and any(
                    isinstance(x, ast.Name) and x.id == name for g in n.generators for x in ast.walk(g.target)):
                out.append(n)
        return out
    for name in tnames:
        covered = set()
        for b in binders(name):
            for x in ast.walk(b):
                if isinstance(x, ast.Name) and x.id == name:
                    covered.add(id(x))
        for n in _own_walk(func):
            if isinstance(n, ast.Name) and n.id == name and id(n) not in covered:
                return None
    out = []
    for x in elts:
        mapping = dict(zip(tnames, x.elts))
        for s in st.body:
            out.append(_Subst(mapping).visit(copy.deepcopy(s)))
    return out


def _n24_kwsets(func):
    """membership in a frozen copy of the keyword dictionary's keys is membership in the dictionary"""
    kw = func.args.kwarg.arg if func.args.kwarg else None
    if kw is None:
        return False
    changed = False
    # kw = dict(kw): a copy of a dictionary nobody else holds
    for lst in _stmt_lists(func):
        for i, st in enumerate(lst):
            if isinstance(st, ast.Assign) and len(st.targets) == 1 and isinstance(st.targets[0], ast.Name) and st.targets[0].id == kw \
                    and isinstance(st.value, ast.Call) and isinstance(st.value.func, ast.Name) and st.value.func.id == 'dict' \
                    and len(st.value.args) == 1 and not st.value.keywords and isinstance(st.value.args[0], ast.Name) \
                    and st.value.args[0].id == kw and len(lst) > 1:
                del lst[i]
                return True
    written = any(isinstance(x, (ast.Subscript,)) and isinstance(x.ctx, (ast.Store, ast.Del)) and isinstance(x.value, ast.Name)
                  and x.value.id == kw for x in _own_walk(func)) or any(
        isinstance(x, ast.Name) and x.id == kw and isinstance(x.ctx, (ast.Store, ast.Del)) for x in _own_walk(func)) or any(
        isinstance(x, ast.Call) and isinstance(x.func, ast.Attribute) and isinstance(x.func.value, ast.Name) and x.func.value.id == kw
        and x.func.attr in ('pop', 'update', 'setdefault', 'clear', 'popitem') for x in _own_walk(func))
    if written:
        return False
    sets = {}
    for x in _own_walk(func):
        if isinstance(x, ast.Assign) and len(x.targets) == 1 and isinstance(x.targets[0], ast.Name):
            v = x.value
            inner = v
            if isinstance(v, ast.Call) and isinstance(v.func, ast.Name) and v.func.id in ('frozenset', 'set', 'tuple', 'list', 'sorted') \
                    and len(v.args) == 1 and not v.keywords:
                inner = v.args[0]
            if isinstance(inner, ast.Call) and isinstance(inner.func, ast.Attribute) and inner.func.attr == 'keys' and not inner.args:
                inner = inner.func.value
            if inner is not v and isinstance(inner, ast.Name) and inner.id == kw:
                sets[x.targets[0].id] = sets.get(x.targets[0].id, 0) + 1
    for nm in list(sets):
        loads, stores = _count_names(func, nm)
        if stores != 1:
            del sets[nm]
    if not sets:
        return False
    for x in _own_walk(func):
        if isinstance(x, ast.Compare) and len(x.ops) == 1 and isinstance(x.ops[0], (ast.In, ast.NotIn)) \
                and isinstance(x.comparators[0], ast.Name) and x.comparators[0].id in sets:
            x.comparators[0] = ast.copy_location(ast.Name(id=kw, ctx=ast.Load()), x.comparators[0])
            changed = True
    return changed


def _n25_trykey(st):
    if not (isinstance(st, ast.Try) and len(st.body) == 1 and len(st.handlers) == 1 and not st.orelse and not st.finalbody):
        return None
    b, h = st.body[0], st.handlers[0]
    if not (isinstance(b, ast.Assign) and len(b.targets) == 1 and isinstance(b.targets[0], ast.Name)
            and isinstance(b.value, ast.Subscript) and isinstance(b.value.value, ast.Name)
            and isinstance(b.value.slice, (ast.Constant, ast.Name))):
        return None
    if not (isinstance(h.type, ast.Name) and h.type.id == 'KeyError' and h.name is None and len(h.body) == 1):
        return None
    d = h.body[0]
    if not (isinstance(d, ast.Assign) and len(d.targets) == 1 and isinstance(d.targets[0], ast.Name)
            and d.targets[0].id == b.targets[0].id and _simple_default(d.value)):
        return None
    if b.targets[0].id in _names(b.value) or b.targets[0].id in _names(d.value):
        return None
    test = _loc(ast.Compare(left=copy.deepcopy(b.value.slice), ops=[ast.In()], comparators=[copy.deepcopy(b.value.value)]), st)
    return [_loc(copy.deepcopy(d), st), _loc(ast.If(test=test, body=[copy.deepcopy(b)], orelse=[]), st)]


def _n25b_suppress(st):
    """with contextlib.suppress(KeyError): x = d[k]; <flags set to constants>   ->   if k in d: x = d[k]; <flags>"""
    if not (isinstance(st, ast.With) and len(st.items) == 1 and st.items[0].optional_vars is None and st.body):
        return None
    c = st.items[0].context_expr
    if not (isinstance(c, ast.Call) and ast.unparse(c.func).split('.')[-1] == 'suppress' and len(c.args) == 1 and not c.keywords
            and isinstance(c.args[0], ast.Name) and c.args[0].id == 'KeyError'):
        return None
    b = st.body[0]
    if not (isinstance(b, ast.Assign) and len(b.targets) == 1 and isinstance(b.targets[0], ast.Name)
            and isinstance(b.value, ast.Subscript) and isinstance(b.value.value, ast.Name)
            and isinstance(b.value.slice, (ast.Constant, ast.Name))):
        return None
    if b.targets[0].id in _names(b.value):
        return None
    for r in st.body[1:]:
        if not (isinstance(r, ast.Assign) and len(r.targets) == 1 and isinstance(r.targets[0], ast.Name)
                and isinstance(r.value, (ast.Constant, ast.Name))):
            return None
    test = _loc(ast.Compare(left=copy.deepcopy(b.value.slice), ops=[ast.In()], comparators=[copy.deepcopy(b.value.value)]), st)
    return [_loc(ast.If(test=test, body=[copy.deepcopy(x) for x in st.body], orelse=[]), st)]


def _n26_trykey_update(st):
    if not (isinstance(st, ast.Try) and len(st.body) == 1 and len(st.handlers) == 1 and not st.orelse and not st.finalbody):
        return None
    b, h = st.body[0], st.handlers[0]
    if not (isinstance(h.type, ast.Name) and h.type.id == 'KeyError' and h.name is None and len(h.body) == 1):
        return None
    slot = None
    if isinstance(b, ast.AugAssign) and isinstance(b.target, ast.Subscript) and _pure(b.target.value) and _pure(b.target.slice) \
            and _pure(b.value):
        slot = b.target
    elif isinstance(b, ast.Expr) and isinstance(b.value, ast.Call) and isinstance(b.value.func, ast.Attribute) \
            and b.value.func.attr in ('append', 'add') and isinstance(b.value.func.value, ast.Subscript) \
            and _pure(b.value.func.value) and len(b.value.args) == 1 and _pure(b.value.args[0]):
        slot = b.value.func.value
    if slot is None:
        return None
    d = h.body[0]
    if not (isinstance(d, ast.Assign) and len(d.targets) == 1 and isinstance(d.targets[0], ast.Subscript)
            and ast.dump(ast.Subscript(value=d.targets[0].value, slice=d.targets[0].slice, ctx=ast.Load()))
            == ast.dump(ast.Subscript(value=slot.value, slice=slot.slice, ctx=ast.Load())) and _pure(d.value)):
        return None
    # the KeyError can only come from the slot itself: the container expression must not subscript another dictionary by a key
    # that may be missing ... accept names, attributes and subscripts of names (nested tables are created before in this code)
    test = _loc(ast.Compare(left=copy.deepcopy(slot.slice), ops=[ast.In()], comparators=[copy.deepcopy(slot.value)]), st)
    return [_loc(ast.If(test=test, body=[copy.deepcopy(b)], orelse=[copy.deepcopy(d)]), st)]


def _n21_whiletrue(st):
    if not (isinstance(st, ast.While) and isinstance(st.test, ast.Constant) and st.test.value is True and not st.orelse
            and len(st.body) >= 2 and isinstance(st.body[0], ast.If) and not st.body[0].orelse
            and len(st.body[0].body) == 1 and isinstance(st.body[0].body[0], ast.Break)):
        return None
    c = st.body[0].test
    if any(isinstance(x, (ast.NamedExpr, ast.Yield, ast.YieldFrom, ast.Await)) for x in ast.walk(c)):
        return None
    neg = c.operand if isinstance(c, ast.UnaryOp) and isinstance(c.op, ast.Not) else _loc(ast.UnaryOp(op=ast.Not(), operand=c), c)
    return [_loc(ast.While(test=neg, body=st.body[1:], orelse=[]), st)]


def _n27_filterloop(func):
    """N27  for x in filter(P, it): B   ->   for x in it: if P(x): B     (P a lambda, None, or a one-line local function;
    itertools.filterfalse likewise with the negation).  filter() is lazy: P runs between the iterations exactly as the `if`."""
    local_defs = {}
    for lst in _stmt_lists(func):
        for s in lst:
            if isinstance(s, ast.FunctionDef) and s is not func:
                local_defs.setdefault(s.name, []).append((lst, s))
    def _cond_of(P, x):
        if isinstance(P, ast.Constant) and P.value is None:
            return ast.Name(id=x, ctx=ast.Load())
        if isinstance(P, ast.Lambda) and len(P.args.args) == 1 and not (P.args.defaults or P.args.vararg or P.args.kwarg
                                                                       or P.args.kwonlyargs or P.args.posonlyargs):
            return _Subst({P.args.args[0].arg: ast.Name(id=x, ctx=ast.Load())}).visit(copy.deepcopy(P.body))
        return None
    # list(filter(lambda v: c, it))  ->  [v for v in it if c]   (both build the whole list at once)
    for c_ in ast.walk(func):
        if isinstance(c_, ast.Call) and isinstance(c_.func, ast.Name) and c_.func.id in ('list', 'tuple', 'sorted', 'set') \
                and c_.args and isinstance(c_.args[0], ast.Call) and ast.unparse(c_.args[0].func) == 'filter' \
                and len(c_.args[0].args) == 2 and not c_.args[0].keywords and isinstance(c_.args[0].args[0], ast.Lambda):
            P, it = c_.args[0].args
            if len(P.args.args) == 1 and not (P.args.defaults or P.args.vararg or P.args.kwarg or P.args.kwonlyargs
                                              or P.args.posonlyargs):
                v = P.args.args[0].arg
                comp = ast.ListComp(elt=ast.Name(id=v, ctx=ast.Load()), generators=[ast.comprehension(
                    target=ast.Name(id=v, ctx=ast.Store()), iter=it, ifs=[P.body], is_async=0)])
                ast.copy_location(comp, c_.args[0])
                if c_.func.id == 'list' and len(c_.args) == 1 and not c_.keywords:
                    # the call node itself becomes the comprehension
                    c_.__class__ = ast.ListComp
                    c_.__dict__.clear()
                    c_.__dict__.update(comp.__dict__)
                else:
                    c_.args[0] = comp
                ast.fix_missing_locations(func)
                return True
    for g in ast.walk(func):
        if isinstance(g, ast.comprehension) and isinstance(g.target, ast.Name) and isinstance(g.iter, ast.Call) \
                and len(g.iter.args) == 2 and not g.iter.keywords and not g.is_async \
                and ast.unparse(g.iter.func) in ('filter', 'itertools.filterfalse', 'filterfalse'):
            cond = _cond_of(g.iter.args[0], g.target.id)
            if cond is None:
                continue
            if ast.unparse(g.iter.func) != 'filter':
                cond = ast.UnaryOp(op=ast.Not(), operand=cond)
            ast.copy_location(cond, g.iter)
            g.ifs.insert(0, cond)
            g.iter = g.iter.args[1]
            ast.fix_missing_locations(g)
            return True
    for lst in _stmt_lists(func):
        for st in lst:
            if not (isinstance(st, ast.For) and isinstance(st.target, ast.Name) and isinstance(st.iter, ast.Call)
                    and len(st.iter.args) == 2 and not st.iter.keywords):
                continue
            fn = ast.unparse(st.iter.func)
            if fn not in ('filter', 'itertools.filterfalse', 'filterfalse'):
                continue
            P, it = st.iter.args
            x = st.target.id
            cond = None
            drop = None
            if isinstance(P, ast.Constant) and P.value is None:
                cond = ast.Name(id=x, ctx=ast.Load())
            elif isinstance(P, ast.Lambda) and len(P.args.args) == 1 and not (P.args.defaults or P.args.vararg or P.args.kwarg
                                                                             or P.args.kwonlyargs or P.args.posonlyargs):
                cond = _Subst({P.args.args[0].arg: ast.Name(id=x, ctx=ast.Load())}).visit(copy.deepcopy(P.body))
            elif isinstance(P, ast.Name) and len(local_defs.get(P.id, ())) == 1 and not any(
                    (isinstance(y, ast.Name) and y.id == P.id and not isinstance(y.ctx, ast.Load)) or
                    (isinstance(y, ast.arg) and y.arg == P.id) for y in ast.walk(func)):
                dl, d = local_defs[P.id][0]
                body = [b for b in d.body if not (isinstance(b, ast.Expr) and (isinstance(b.value, ast.Constant) or (
                    isinstance(b.value, ast.Call) and isinstance(b.value.func, ast.Name) and b.value.func.id == 'repr'
                    and len(b.value.args) == 1 and isinstance(b.value.args[0], ast.Constant))))]
                a = d.args
                if len(body) == 1 and isinstance(body[0], ast.Return) and body[0].value is not None and len(a.args) == 1 \
                        and not (a.defaults or a.vararg or a.kwarg or a.kwonlyargs or a.posonlyargs or d.decorator_list) \
                        and not any(isinstance(y, (ast.Yield, ast.YieldFrom, ast.NamedExpr, ast.Lambda)) for y in ast.walk(body[0])):
                    cond = _Subst({a.args[0].arg: ast.Name(id=x, ctx=ast.Load())}).visit(copy.deepcopy(body[0].value))
                    uses = sum(1 for y in ast.walk(func) if isinstance(y, ast.Name) and y.id == P.id)
                    if uses == 1 and len(dl) > 1:
                        drop = (dl, d)
            if cond is None:
                continue
            if fn != 'filter':
                cond = ast.UnaryOp(op=ast.Not(), operand=cond)
            st.iter = it
            st.body = [_loc(ast.If(test=_loc(cond, st), body=st.body, orelse=[]), st)]
            ast.fix_missing_locations(st)
            if drop:
                drop[0].remove(drop[1])
            return True
    return False


def _n30_sortcopy(func):
    """N30  v = list(E) / E[:] / [comprehension] / a + b ; v.sort(key=K, reverse=R)   ->   v = sorted(E, key=K, reverse=R)
    (a fresh list sorted in place is what sorted() returns: same elements, same stable order)"""
    for lst in _stmt_lists(func):
        for i in range(len(lst) - 1):
            a, b = lst[i], lst[i + 1]
            if not (isinstance(a, ast.Assign) and len(a.targets) == 1 and isinstance(a.targets[0], ast.Name)):
                continue
            v = a.targets[0].id
            if not (isinstance(b, ast.Expr) and isinstance(b.value, ast.Call) and isinstance(b.value.func, ast.Attribute)
                    and b.value.func.attr == 'sort' and isinstance(b.value.func.value, ast.Name) and b.value.func.value.id == v
                    and not b.value.args and all(k.arg in ('key', 'reverse') for k in b.value.keywords)):
                continue
            e = a.value
            src = None
            if isinstance(e, ast.Call) and isinstance(e.func, ast.Name) and e.func.id == 'list' and len(e.args) == 1 and not e.keywords:
                src = e.args[0]
            elif isinstance(e, ast.Subscript) and isinstance(e.slice, ast.Slice) and e.slice.lower is None and e.slice.upper is None \
                    and e.slice.step is None:
                src = e.value
            elif isinstance(e, (ast.ListComp, ast.List)) or (isinstance(e, ast.BinOp) and isinstance(e.op, ast.Add)):
                src = e
            if src is None or v in _names(src) or any(v in _names(k.value) for k in b.value.keywords):
                continue
            call = ast.Call(func=ast.Name(id='sorted', ctx=ast.Load()), args=[src], keywords=b.value.keywords)
            lst[i:i + 2] = [_assign(a.targets[0], _loc(call, a), a)]
            return True
    return False


def _n13_annassign(st):
    """x: T = v  ->  x = v ;  x: T  ->  pass   (annotations of locals are never evaluated)"""
    if isinstance(st, ast.AnnAssign) and isinstance(st.target, ast.Name):
        if st.value is None:
            return [_loc(ast.Pass(), st)]
        return [_assign(st.target, st.value, st)]
    return None


def _block_rewrite(func, fn):
    """Apply fn(stmt) -> list | None to every statement of every block until nothing changes."""
    changed = False
    for lst in _stmt_lists(func):
        i = 0
        while i < len(lst):
            r = fn(lst[i])
            if r is not None:
                lst[i:i + 1] = r
                changed = True
                i += len(r)
            else:
                i += 1
    return changed


# --------------------------------------------------------------------------- N5 helper inlining

def _expr_helpers(tree, public_ok=None):
    """private module-level functions whose body is `return <expr>` (after an optional docstring);
    public ones too when public_ok(name) says that no rule refers to them."""
    out = {}
    for st in tree.body:
        if isinstance(st, ast.FunctionDef) and not st.name.startswith('__') and (
                st.name.startswith('_') or (public_ok is not None and public_ok(st.name))):
            a = st.args
            if a.vararg or a.kwarg or a.kwonlyargs or a.defaults or a.posonlyargs or st.decorator_list:
                continue
            def _noop(s):
                # docstrings, bare constants, `pass`, and calls of pure builtins on constants say nothing
                if isinstance(s, ast.Pass):
                    return True
                if isinstance(s, ast.Expr) and isinstance(s.value, ast.Constant):
                    return True
                return isinstance(s, ast.Expr) and isinstance(s.value, ast.Call) and isinstance(s.value.func, ast.Name) \
                    and s.value.func.id in PURE_BUILTINS and all(isinstance(a_, ast.Constant) for a_ in s.value.args) \
                    and not s.value.keywords
            body = [s for s in st.body if not _noop(s)]
            if len(body) == 1 and isinstance(body[0], ast.Return) and body[0].value is not None:
                e = body[0].value
                if any(isinstance(n, (ast.Yield, ast.YieldFrom, ast.Await, ast.NamedExpr)) for n in ast.walk(e)):
                    continue
                # not recursive
                if any(isinstance(n, ast.Name) and n.id == st.name for n in ast.walk(e)):
                    continue
                out[st.name] = (st, copy.deepcopy(e))      # the expression as written, before any rewrite
    return out


def _stmt_helpers(tree, external, defs=None, foreign=False):
    """Module-level functions that are plain statement sequences (no value returned, no loop, not recursive),
    called only directly and only inside this module: N10 inlines them at their call statements.
    With `defs` (the nested function definitions of function `tree`): the same for local closures."""
    out = {}
    refs = {}
    calls = {}
    for n in ast.walk(tree):
        if isinstance(n, ast.Name):
            refs[n.id] = refs.get(n.id, 0) + 1
        if isinstance(n, ast.Call) and isinstance(n.func, ast.Name):
            calls[n.func.id] = calls.get(n.func.id, 0) + 1
    for st in (tree.body if defs is None else defs):
        if not isinstance(st, ast.FunctionDef) or st.name in external or st.decorator_list:
            continue
        a = st.args
        if a.vararg or a.kwarg or a.kwonlyargs or a.defaults or a.posonlyargs:
            continue
        body = [x for x in st.body if not (isinstance(x, ast.Expr) and isinstance(x.value, ast.Constant))]
        if not body or len(body) > 8:
            continue
        bad = False
        for x in ast.walk(st):
            if isinstance(x, (ast.Yield, ast.YieldFrom, ast.Await, ast.For, ast.While, ast.Try, ast.With, ast.Global,
                              ast.Nonlocal, ast.Lambda, ast.ListComp, ast.DictComp, ast.SetComp, ast.GeneratorExp)):
                bad = True
            if isinstance(x, ast.Return):
                bad = True
            if isinstance(x, (ast.FunctionDef, ast.ClassDef)) and x is not st:
                bad = True
            if isinstance(x, ast.Name) and x.id == st.name:
                bad = True
        if bad:
            continue
        if not foreign and (calls.get(st.name, 0) == 0 or refs.get(st.name, 0) != calls.get(st.name, 0)):
            continue
        if foreign and refs.get(st.name, 0) != calls.get(st.name, 0):
            continue            # handed around as a value somewhere in its own module
        out[st.name] = (st, copy.deepcopy(body))
    return out


def _closure_helpers(func):
    """Local functions of `func` that are plain statement sequences, bound once and only ever called as statements."""
    defs = []
    for lst in _stmt_lists(func):
        defs += [s for s in lst if isinstance(s, ast.FunctionDef) and s is not func]
    if not defs:
        return {}
    stores = {}
    for n in ast.walk(func):
        if isinstance(n, ast.Name) and not isinstance(n.ctx, ast.Load):
            stores[n.id] = stores.get(n.id, 0) + 1
        if isinstance(n, ast.arg):
            stores[n.arg] = stores.get(n.arg, 0) + 1
    names = [d.name for d in defs]
    defs = [d for d in defs if names.count(d.name) == 1 and not stores.get(d.name)]
    return _stmt_helpers(func, set(), defs)


_N10_COUNTER = [0]


def _n10_inline_stmt(st, helpers, caller_locals, closure=False, foreign=None, aliases=None):
    if not (isinstance(st, ast.Expr) and isinstance(st.value, ast.Call)):
        return None
    c = st.value
    qualify = None
    if foreign and isinstance(c.func, ast.Attribute) and isinstance(c.func.value, ast.Name) and c.func.value.id in (aliases or {}) \
            and c.func.value.id not in caller_locals and (aliases[c.func.value.id], c.func.attr) in foreign:
        h, body, modnames = foreign[(aliases[c.func.value.id], c.func.attr)]
        body = copy.deepcopy(body)
        qualify = (c.func.value.id, modnames)
        tag = c.func.attr
    elif isinstance(c.func, ast.Name) and c.func.id in helpers and not (c.func.id in caller_locals and not closure):
        h, body = helpers[c.func.id]
        tag = c.func.id
    else:
        return None
    params = [a.arg for a in h.args.args]
    if c.keywords or len(c.args) != len(params) or any(isinstance(a, ast.Starred) for a in c.args):
        return None
    assigned = set()
    for s in body:
        for x in ast.walk(s):
            if isinstance(x, ast.Name) and isinstance(x.ctx, (ast.Store, ast.Del)):
                assigned.add(x.id)
    if assigned & set(params):
        return None               # the helper re-binds a parameter: substitution would change the caller's variable
    counts = dict((p_, 0) for p_ in params)
    free = set()
    for s in body:
        for x in ast.walk(s):
            if isinstance(x, ast.Name):
                if x.id in counts:
                    counts[x.id] += 1
                elif x.id not in assigned:
                    free.add(x.id)
    if qualify is not None:
        free -= set(qualify[1])
    if free & caller_locals and not closure:
        return None               # a module-level name of the helper is shadowed in the caller
    pre = []
    mapping = {}
    for p_, a in zip(params, c.args):
        if _is_path(a) or isinstance(a, ast.Constant) or _simple_default(a):
            mapping[p_] = a
        else:
            _N10_COUNTER[0] += 1
            tmp = '%s__%s_%d' % (p_, tag, _N10_COUNTER[0])       # one name per inlined call: a temporary, not a variable
            pre.append(_assign(ast.Name(id=tmp, ctx=ast.Store()), a, st))
            mapping[p_] = ast.Name(id=tmp, ctx=ast.Load())
    ren = dict((nm, '%s__%s' % (nm, tag)) for nm in assigned)
    if qualify is not None:
        for nm in qualify[1]:
            if nm not in mapping:
                mapping[nm] = ast.Attribute(value=ast.Name(id=qualify[0], ctx=ast.Load()), attr=nm, ctx=ast.Load())

    class _Ren(ast.NodeTransformer):
        def visit_Name(self, n):
            if n.id in ren:
                return ast.copy_location(ast.Name(id=ren[n.id], ctx=n.ctx), n)
            return n
    out = list(pre)
    for s in body:
        s2 = _Ren().visit(copy.deepcopy(s))
        s2 = _Subst(mapping).visit(s2)
        for x in ast.walk(s2):
            if hasattr(x, 'lineno'):
                x.lineno = st.lineno
                x.end_lineno = getattr(st, 'end_lineno', st.lineno)
        out.append(s2)
    return out


class _Inline(ast.NodeTransformer):
    def __init__(self, helpers, caller_locals, foreign=None, aliases=None):
        self.helpers = helpers
        self.locals = caller_locals
        self.foreign = foreign or {}      # (module, name) -> (def, expr, module-level names used)
        self.aliases = aliases or {}
        self.done = False

    def visit_Call(self, n):
        self.generic_visit(n)
        f = n.func
        qualify = None
        if isinstance(f, ast.Attribute) and isinstance(f.value, ast.Name) and f.value.id in self.aliases \
                and f.value.id not in self.locals and (self.aliases[f.value.id], f.attr) in self.foreign:
            h, e, modnames = self.foreign[(self.aliases[f.value.id], f.attr)]
            qualify = (f.value.id, modnames)
        elif isinstance(f, ast.Name) and f.id in self.helpers and f.id not in self.locals:
            h, e = self.helpers[f.id]
        else:
            return n
        params = [a.arg for a in h.args.args]
        if n.keywords or len(n.args) != len(params) or any(isinstance(a, ast.Starred) for a in n.args):
            return n
        bound = set()
        for x in ast.walk(e):
            if isinstance(x, ast.comprehension):
                bound |= _names(x.target)
            if isinstance(x, ast.Lambda):
                bound |= set(a.arg for a in x.args.args)
        free = _names(e) - set(params) - bound
        if qualify is not None:
            if bound & set(qualify[1]):
                return n
            free -= set(qualify[1])
        if free & self.locals:
            return n          # a module-level name of the helper is shadowed in the caller
        argnames = set()
        for a in n.args:
            argnames |= _names(a)
        if bound & (argnames | set(params)):
            return n          # capture
        counts = dict((p, 0) for p in params)
        for x in ast.walk(e):
            if isinstance(x, ast.Name) and x.id in counts:
                counts[x.id] += 1
        for p, a in zip(params, n.args):
            if counts[p] != 1 and not (_is_path(a) or isinstance(a, ast.Constant)):
                return n
            if counts[p] == 0 and not _pure(a):
                return n
        self.done = True
        mapping = dict(zip(params, n.args))
        if qualify is not None:
            for nm in qualify[1]:
                if nm not in mapping:
                    mapping[nm] = ast.Attribute(value=ast.Name(id=qualify[0], ctx=ast.Load()), attr=nm, ctx=ast.Load())
        return _loc(_Subst(mapping).visit(copy.deepcopy(e)), n)


# --------------------------------------------------------------------------- N6 / N7 aliases and temporaries

def _count_names(func, name):
    loads = stores = 0
    for n in _own_walk(func):
        if isinstance(n, ast.Name) and n.id == name:
            if isinstance(n.ctx, ast.Load):
                loads += 1
            else:
                stores += 1
        elif isinstance(n, ast.ExceptHandler) and n.name == name:
            stores += 1
        elif isinstance(n, (ast.Global, ast.Nonlocal)) and name in n.names:
            stores += 2
    # nested defs may read the name
    for n in _own_walk(func):
        if isinstance(n, (ast.FunctionDef, ast.Lambda)):
            for m in ast.walk(n):
                if isinstance(m, ast.Name) and m.id == name and isinstance(n, ast.FunctionDef):
                    loads += 100
    return loads, stores


def _path_str(e):
    from .core import path
    return path(e)


def _kills_in(stmts, p):
    from .core import writes_of, kills
    for s in stmts:
        for n in [s] + list(_own_walk(s)):
            if isinstance(n, ast.stmt):
                for w in writes_of(n) if not isinstance(n, (ast.For, ast.With)) else set():
                    if kills(w, p):
                        return True
                if isinstance(n, ast.For):
                    for w in writes_of(n, 'iter'):
                        if kills(w, p):
                            return True
                if isinstance(n, ast.With):
                    for w in writes_of(n, 'with'):
                        if kills(w, p):
                            return True
    return False


def _impure_call_in(stmts, env):
    """Does a statement call something that is not known to be free of effects?"""
    ctx, mname, aliases, loc = env
    for s in stmts:
        for n in [s] + list(_own_walk(s)):
            if not isinstance(n, ast.Call):
                continue
            fn = n.func
            if isinstance(fn, ast.Name):
                if fn.id in loc:
                    return True
                if fn.id in PURE_BUILTINS or fn.id in EXTRA_PURE or (mname, fn.id) in ctx['pure'] or fn.id == 'print':
                    continue          # print writes to a stream, not to anything a program value is read from
                return True
            if isinstance(fn, ast.Attribute):
                if fn.attr == 'write' and ast.unparse(fn.value) in ('sys.stderr', 'sys.stdout'):
                    continue
                if isinstance(fn.value, ast.Name) and fn.value.id in aliases and fn.value.id not in loc:
                    if (aliases[fn.value.id], fn.attr) in ctx['pure']:
                        continue
                    return True
                if fn.attr in PURE_METHODS:
                    continue
                return True
            return True
    return False


def _n6_alias(func, env):
    """a = <access path> (only definition of a), every use of a lexically after it in the same block (or nested
    in later statements of that block), the path not written there: substitute."""
    params = set(a.arg for a in func.args.args + func.args.posonlyargs + func.args.kwonlyargs)
    if func.args.vararg:
        params.add(func.args.vararg.arg)
    if func.args.kwarg:
        params.add(func.args.kwarg.arg)
    for lst in _stmt_lists(func):
        for i, st in enumerate(lst):
            if not (isinstance(st, ast.Assign) and len(st.targets) == 1 and isinstance(st.targets[0], ast.Name)):
                continue
            a = st.targets[0].id
            v = st.value
            if a in params or not isinstance(v, (ast.Attribute, ast.Subscript)) or not _is_path(v):
                continue
            # attribute aliases denote the same object; subscript values are copied references: both fine while
            # the path is not re-bound.  Exclude module attributes (trees.X) - those are constants, not aliases.
            p = _path_str(v)
            if p is None or a in _names(v):
                continue
            loads, stores = _count_names(func, a)
            if stores != 1 or loads == 0 or loads >= 100:
                continue
            rest = lst[i + 1:]
            inside = sum(1 for s in rest for n in ast.walk(s)
                         if isinstance(n, ast.Name) and n.id == a and isinstance(n.ctx, ast.Load))
            if inside != loads:
                continue
            last = max(k for k, s in enumerate(rest) if any(
                isinstance(n, ast.Name) and n.id == a for n in ast.walk(s)))
            span = rest[:last + 1]
            if _kills_in(span, p):
                continue
            attrs = [n.attr for n in ast.walk(v) if isinstance(n, ast.Attribute)]
            fragile = any(isinstance(n, ast.Subscript) for n in ast.walk(v)) \
                or any(x in env[0]['rebound'] for x in attrs)
            if fragile and _impure_call_in(span, env):
                continue
            # the alias itself must not be the receiver of a re-binding that the path would not see: none possible
            for k, s in enumerate(rest):
                rest[k] = _Subst({a: v}).visit(s)
            lst[i + 1:] = rest
            del lst[i]
            return True
    return False


def _first_effect_free_use(S, name):
    """Is the single load of `name` inside simple statement / header expression S evaluated before anything
    with an effect?  Conservative: S contains no call other than pure ones, or the load is a direct argument
    of the outermost call whose callee expression is an access path."""
    return None


def _n7_temp(func):
    for lst in _stmt_lists(func):
        for i in range(len(lst) - 1):
            st, nxt = lst[i], lst[i + 1]
            if not (isinstance(st, ast.Assign) and len(st.targets) == 1 and isinstance(st.targets[0], ast.Name)):
                continue
            t = st.targets[0].id
            loads, stores = _count_names(func, t)
            if loads != 1 or stores != 1:
                continue
            # where may the use be: a simple statement, the test of an if, the iterable of a for
            if isinstance(nxt, (ast.Expr, ast.Assign, ast.AugAssign, ast.Return)):
                host = nxt
                parts = [nxt]
            elif isinstance(nxt, ast.If):
                host = nxt.test
                parts = [nxt.test]
            elif isinstance(nxt, ast.For):
                host = nxt.iter
                parts = [nxt.iter]
            else:
                continue
            uses = [n for p in parts for n in ast.walk(p)
                    if isinstance(n, ast.Name) and n.id == t and isinstance(n.ctx, ast.Load)]
            if len(uses) != 1:
                continue
            v = st.value
            if isinstance(v, (ast.Constant, ast.Lambda, ast.Yield, ast.YieldFrom, ast.Await)):
                continue
            if any(isinstance(n, (ast.Yield, ast.YieldFrom, ast.Await, ast.NamedExpr)) for n in ast.walk(v)):
                continue
            ok = False
            if _pure(v):
                # nothing in the host may write what v reads before the use: hosts that write are assignments,
                # whose targets are stored after the value is evaluated; an augmented target is read first but
                # written last.  Calls with effects in the host evaluated before the use could change v's operands.
                others = [n for p in parts for n in ast.walk(p) if isinstance(n, ast.Call)]
                ok = all(_pure(c) for c in others)
                if not ok:
                    # accept when v reads only locals that no call in the host receives as receiver/argument
                    ok = False
            if not ok:
                # the use is a direct argument of the statement's outermost call and nothing else is evaluated
                # before it except access paths:  f.write(t)  /  x = g(t)  /  return g(t)
                call = None
                if isinstance(nxt, ast.Expr) and isinstance(nxt.value, ast.Call):
                    call = nxt.value
                elif isinstance(nxt, (ast.Assign, ast.Return)) and isinstance(nxt.value, ast.Call):
                    call = nxt.value
                if call is not None and _is_path(call.func) and not call.keywords:
                    idx = [k for k, a in enumerate(call.args) if isinstance(a, ast.Name) and a.id == t]
                    if len(idx) == 1 and all(_is_path(a) or isinstance(a, ast.Constant) for a in call.args[:idx[0]]) \
                            and all(_pure(a) for a in call.args[idx[0] + 1:]):
                        if not isinstance(nxt, ast.Assign) or all(isinstance(x, ast.Name) for x in nxt.targets):
                            ok = True
            if not ok:
                continue
            # a temporary that names a long value for readability *and* is a local flag used in a test is kept
            # when its value is a boolean expression: the fact analysis expands such flags itself
            if isinstance(nxt, ast.If) and isinstance(v, (ast.BoolOp, ast.Compare, ast.UnaryOp)):
                pass
            new = _Subst({t: v}).visit(nxt)
            lst[i + 1] = new
            del lst[i]
            return True
    return False


# --------------------------------------------------------------------------- N14 keyword arguments

class _Positional(ast.NodeTransformer):
    """f(a, q=b) -> f(a, b) for package functions with a known plain parameter list."""

    def __init__(self, sigs, mname, aliases, caller_locals):
        self.sigs, self.mname, self.aliases, self.locals = sigs, mname, aliases, caller_locals
        self.count = 0

    def visit_Call(self, n):
        self.generic_visit(n)
        if not n.keywords or any(k.arg is None for k in n.keywords) or any(isinstance(a, ast.Starred) for a in n.args):
            return n
        f = n.func
        key = None
        if isinstance(f, ast.Name) and f.id not in self.locals:
            key = (self.mname, f.id)
        elif isinstance(f, ast.Attribute) and isinstance(f.value, ast.Name) and f.value.id in self.aliases \
                and f.value.id not in self.locals:
            key = (self.aliases[f.value.id], f.attr)
        params = self.sigs.get(key)
        if not params:
            return n
        have = len(n.args)
        byname = dict((k.arg, k) for k in n.keywords)
        if len(byname) != len(n.keywords):
            return n
        moved = []
        pos = have
        while pos < len(params) and params[pos] in byname:
            moved.append(byname[params[pos]])
            pos += 1
        if not moved:
            return n
        # evaluation order: the moved keywords must be the first keywords, in this order, or everything is pure
        in_order = n.keywords[:len(moved)] == moved
        if not in_order and not all(_pure(k.value) for k in n.keywords):
            return n
        n.args = list(n.args) + [k.value for k in moved]
        n.keywords = [k for k in n.keywords if k not in moved]
        self.count += 1
        return n


# --------------------------------------------------------------------------- N15 create-or-append

def _n15_dict_init(st):
    """if k in d: d[k].append(x) else: d[k] = [x]  (or mirrored)  ->  if k not in d: d[k] = []; d[k].append(x)"""
    if not (isinstance(st, ast.If) and len(st.body) == 1 and len(st.orelse) == 1):
        return None
    t = st.test
    neg = False
    if isinstance(t, ast.UnaryOp) and isinstance(t.op, ast.Not):
        t, neg = t.operand, True
    if not (isinstance(t, ast.Compare) and len(t.ops) == 1 and isinstance(t.ops[0], (ast.In, ast.NotIn))):
        return None
    present = isinstance(t.ops[0], ast.In) != neg
    k, d = t.left, t.comparators[0]
    if not (_pure(k) and _pure(d) and isinstance(d, (ast.Name, ast.Attribute, ast.Subscript))):
        return None
    app, init = (st.body[0], st.orelse[0]) if present else (st.orelse[0], st.body[0])
    slot = ast.dump(ast.Subscript(value=d, slice=k, ctx=ast.Load()))
    # counters:  if k in d: d[k] += v else: d[k] = v   ->   if k not in d: d[k] = 0;  d[k] += v     (v an int)
    if isinstance(app, ast.AugAssign) and isinstance(app.op, ast.Add) and isinstance(app.target, ast.Subscript) \
            and ast.dump(ast.Subscript(value=app.target.value, slice=app.target.slice, ctx=ast.Load())) == slot \
            and isinstance(init, ast.Assign) and len(init.targets) == 1 and isinstance(init.targets[0], ast.Subscript) \
            and ast.dump(ast.Subscript(value=init.targets[0].value, slice=init.targets[0].slice, ctx=ast.Load())) == slot \
            and ast.dump(init.value) == ast.dump(app.value) \
            and isinstance(app.value, ast.Constant) and isinstance(app.value.value, int) and not isinstance(app.value.value, bool):
        test = _loc(ast.Compare(left=copy.deepcopy(k), ops=[ast.NotIn()], comparators=[copy.deepcopy(d)]), st)
        zero = _assign(init.targets[0], ast.Constant(value=0), init)
        return [_loc(ast.If(test=test, body=[zero], orelse=[]), st), app]

    def is_slot(e):
        return isinstance(e, ast.Subscript) and ast.dump(ast.Subscript(value=e.value, slice=e.slice, ctx=ast.Load())) == slot
    if not (isinstance(app, ast.Expr) and isinstance(app.value, ast.Call) and isinstance(app.value.func, ast.Attribute)
            and app.value.func.attr in ('append', 'add') and is_slot(app.value.func.value)
            and len(app.value.args) == 1 and not app.value.keywords):
        return None
    x = app.value.args[0]
    if not (isinstance(init, ast.Assign) and len(init.targets) == 1 and is_slot(init.targets[0])):
        return None
    v = init.value
    if app.value.func.attr == 'append':
        if not (isinstance(v, ast.List) and len(v.elts) == 1 and ast.dump(v.elts[0]) == ast.dump(x)):
            return None
        empty = ast.List(elts=[], ctx=ast.Load())
    else:
        if not (isinstance(v, ast.Set) and len(v.elts) == 1 and ast.dump(v.elts[0]) == ast.dump(x)):
            return None
        empty = ast.Call(func=ast.Name(id='set', ctx=ast.Load()), args=[], keywords=[])
    if not _pure(x):
        return None
    test = _loc(ast.Compare(left=copy.deepcopy(k), ops=[ast.NotIn()], comparators=[copy.deepcopy(d)]), st)
    new_init = _assign(init.targets[0], empty, init)
    guard = _loc(ast.If(test=test, body=[new_init], orelse=[]), st)
    return [guard, app]


# --------------------------------------------------------------------------- N17 dict.update with visible keys

def _n17_update(st):
    """d.update({k: v, ...}) / d.update(k=v, ...) / d.update((k, v) for a in it)  as a statement  ->  d[k] = v ..."""
    if not (isinstance(st, ast.Expr) and isinstance(st.value, ast.Call) and isinstance(st.value.func, ast.Attribute)
            and st.value.func.attr == 'update'):
        return None
    c = st.value
    d = c.func.value
    if not (isinstance(d, (ast.Name, ast.Attribute, ast.Subscript)) and _pure(d)):
        return None
    # only node data dictionaries and dictionaries written as such: `<x>.data`
    if not (isinstance(d, ast.Attribute) and d.attr == 'data'):
        return None
    dtxt = ast.unparse(d)
    pairs = None
    if len(c.args) == 1 and not c.keywords and isinstance(c.args[0], ast.Dict) and all(k is not None for k in c.args[0].keys):
        pairs = list(zip(c.args[0].keys, c.args[0].values))
    elif not c.args and c.keywords and all(k.arg is not None for k in c.keywords):
        pairs = [(ast.Constant(value=k.arg), k.value) for k in c.keywords]
    elif len(c.args) == 1 and not c.keywords and isinstance(c.args[0], (ast.GeneratorExp, ast.ListComp)):
        g = c.args[0]
        if len(g.generators) == 1 and not g.generators[0].ifs and not g.generators[0].is_async \
                and isinstance(g.elt, ast.Tuple) and len(g.elt.elts) == 2 and _pure(g.elt) and _pure(g.generators[0].iter) \
                and dtxt not in ast.unparse(g.elt.elts[1]) and dtxt not in ast.unparse(g.generators[0].iter):
            tgt = ast.Subscript(value=copy.deepcopy(d), slice=copy.deepcopy(g.elt.elts[0]), ctx=ast.Store())
            body = _loc(ast.Assign(targets=[tgt], value=copy.deepcopy(g.elt.elts[1])), st)
            loop = ast.For(target=copy.deepcopy(g.generators[0].target), iter=copy.deepcopy(g.generators[0].iter),
                           body=[body], orelse=[])
            for x in ast.walk(loop.target):
                if isinstance(x, ast.Name):
                    x.ctx = ast.Store()
            return [_loc(loop, st)]
        return None
    if not pairs:
        return None
    # all values are evaluated before any store: sequential stores are the same when no value reads the dictionary
    if any(not _pure(k) or not _pure(v) or dtxt in ast.unparse(v) for (k, v) in pairs):
        return None
    out = []
    for (k, v) in pairs:
        tgt = ast.Subscript(value=copy.deepcopy(d), slice=copy.deepcopy(k), ctx=ast.Store())
        out.append(_loc(ast.Assign(targets=[tgt], value=copy.deepcopy(v)), st))
    return out


# --------------------------------------------------------------------------- N19 collecting loops, N20 f-strings

def _n19_collect(func):
    """v = []  directly followed by a loop that only appends to v  ->  a list comprehension."""
    for lst in _stmt_lists(func):
        for i in range(len(lst) - 1):
            st, lp = lst[i], lst[i + 1]
            if not (isinstance(st, ast.Assign) and len(st.targets) == 1 and isinstance(st.targets[0], ast.Name)
                    and isinstance(st.value, ast.List) and not st.value.elts and isinstance(lp, ast.For) and not lp.orelse
                    and len(lp.body) == 1):
                continue
            v = st.targets[0].id
            body = lp.body[0]
            conds = []
            while isinstance(body, ast.If) and not body.orelse and len(body.body) == 1:
                conds.append(body.test)
                body = body.body[0]
            if not (isinstance(body, ast.Expr) and isinstance(body.value, ast.Call) and isinstance(body.value.func, ast.Attribute)
                    and body.value.func.attr == 'append' and isinstance(body.value.func.value, ast.Name)
                    and body.value.func.value.id == v and len(body.value.args) == 1 and not body.value.keywords):
                continue
            elt = body.value.args[0]
            if v in _names(elt) or v in _names(lp.iter) or any(v in _names(c) for c in conds):
                continue
            if any(isinstance(x, (ast.Yield, ast.YieldFrom, ast.Await, ast.NamedExpr)) for x in ast.walk(lp)):
                continue
            tnames = _names(lp.target)
            # the loop variable must not be looked at after the loop (a comprehension keeps it to itself), nor be bound before
            # every other read of the name happens under a binder of its own (another loop or comprehension over it)
            parents = {}
            for p_ in ast.walk(func):
                for c_ in ast.iter_child_nodes(p_):
                    parents[c_] = p_
            inside_lp = set(id(x) for x in ast.walk(lp))
            leak = False
            for x in _own_walk(func):
                if isinstance(x, ast.Name) and x.id in tnames and id(x) not in inside_lp:
                    if isinstance(x.ctx, ast.Store):
                        b_ = parents.get(x)
                        while b_ is not None and not isinstance(b_, (ast.For, ast.comprehension)):
                            b_ = parents.get(b_)
                        if b_ is None or not any(y is x for y in ast.walk(b_.target)):
                            leak = True         # assigned as a plain variable somewhere: leave the scoping alone
                        continue
                    a_ = parents.get(x)
                    bound = False
                    while a_ is not None and a_ is not func:
                        if isinstance(a_, ast.For) and x.id in _names(a_.target) and not any(y is x for y in ast.walk(a_.iter)):
                            bound = True
                            break
                        if isinstance(a_, (ast.ListComp, ast.SetComp, ast.GeneratorExp, ast.DictComp)) and any(
                                x.id in _names(g_.target) for g_ in a_.generators):
                            bound = True
                            break
                        a_ = parents.get(a_)
                    if not bound:
                        leak = True
            if leak:
                continue
            comp = ast.ListComp(elt=elt, generators=[ast.comprehension(target=lp.target, iter=lp.iter, ifs=conds, is_async=0)])
            lst[i:i + 2] = [_loc(ast.Assign(targets=[ast.Name(id=v, ctx=ast.Store())], value=comp), st)]
            return True
    return False


class _FStr(ast.NodeTransformer):
    def __init__(self):
        self.count = 0

    def visit_JoinedStr(self, n):
        self.generic_visit(n)
        fmt, args = '', []
        for part in n.values:
            if isinstance(part, ast.Constant) and isinstance(part.value, str):
                fmt += part.value.replace('%', '%%')
            elif isinstance(part, ast.FormattedValue) and part.conversion in (-1, 115):
                spec = ''
                if part.format_spec is not None:
                    if not (isinstance(part.format_spec, ast.JoinedStr) and len(part.format_spec.values) == 1
                            and isinstance(part.format_spec.values[0], ast.Constant)
                            and part.format_spec.values[0].value in ('d', 's')):
                        return n
                    spec = part.format_spec.values[0].value
                fmt += '%d' if spec == 'd' else '%s'
                args.append(part.value)
            else:
                return n
        if not args:
            return n
        self.count += 1
        right = args[0] if len(args) == 1 and not isinstance(args[0], ast.Tuple) else ast.Tuple(elts=args, ctx=ast.Load())
        if len(args) == 1:
            right = ast.Tuple(elts=args, ctx=ast.Load())
        return _loc(ast.BinOp(left=ast.Constant(value=fmt), op=ast.Mod(), right=right), n)


# --------------------------------------------------------------------------- N16 assignment expressions

def _pure_env(e, env):
    """_pure, with package functions known to be free of effects accepted as well."""
    ctx, mname, aliases, loc = env
    for n in ast.walk(e):
        if isinstance(n, ast.Call):
            f = n.func
            if isinstance(f, ast.Name) and f.id not in loc and (f.id in PURE_BUILTINS or (mname, f.id) in ctx['pure']):
                continue
            if isinstance(f, ast.Attribute) and isinstance(f.value, ast.Name) and f.value.id in aliases \
                    and f.value.id not in loc:
                if (aliases[f.value.id], f.attr) in ctx['pure']:
                    continue
                return False
            if isinstance(f, ast.Attribute) and f.attr in PURE_METHODS:
                continue
            return False
        if isinstance(n, (ast.NamedExpr, ast.Yield, ast.YieldFrom, ast.Await, ast.Lambda)):
            return False
    return True


def _n16_walrus(func, env):
    """(a := v) with a bound nowhere else: v in place of the binding and of every use of a."""
    params = _locals_of(func) - set(n.id for n in _own_walk(func) if isinstance(n, ast.Name)
                                    and isinstance(n.ctx, (ast.Store, ast.Del)))
    for lst in _stmt_lists(func):
        for i, st in enumerate(lst):
            heads = [st]
            if isinstance(st, (ast.If, ast.While)):
                heads = [st.test]
            elif isinstance(st, ast.For):
                heads = [st.iter]
            elif isinstance(st, (ast.FunctionDef, ast.ClassDef, ast.Try, ast.With)):
                continue
            for hd in heads:
                for w in ast.walk(hd):
                    if not (isinstance(w, ast.NamedExpr) and isinstance(w.target, ast.Name)):
                        continue
                    a, v = w.target.id, w.value
                    if a in _names(v) or isinstance(st, ast.While):
                        continue
                    if any(isinstance(x, (ast.NamedExpr, ast.Yield, ast.YieldFrom, ast.Await, ast.Lambda))
                           for x in ast.walk(v)):
                        continue
                    is_path = _is_path(v) and isinstance(v, (ast.Attribute, ast.Subscript))
                    if not (is_path or (_pure_env(v, env) and not isinstance(v, (ast.Constant, ast.Name)))):
                        continue
                    loads, stores = _count_names(func, a)
                    if stores != 1 or loads == 0 or loads >= 100 or a in params:
                        continue
                    span = lst[i:]
                    inside = sum(1 for s in span for n in ast.walk(s)
                                 if isinstance(n, ast.Name) and n.id == a and isinstance(n.ctx, ast.Load))
                    if inside != loads:
                        continue
                    last = max(k for k, s in enumerate(span) if any(
                        isinstance(n, ast.Name) and n.id == a for n in ast.walk(s)))
                    span = span[:last + 1]
                    # the operands of v must keep their value over the span
                    stable = True
                    for sub in ast.walk(v):
                        if isinstance(sub, (ast.Attribute, ast.Subscript)) and _is_path(sub):
                            p = _path_str(sub)
                            if p is not None and _kills_in(span, p):
                                stable = False
                        if isinstance(sub, ast.Name):
                            for s in span:
                                for x in ast.walk(s):
                                    if isinstance(x, ast.Name) and x.id == sub.id and isinstance(x.ctx, (ast.Store, ast.Del)):
                                        stable = False
                    if not stable:
                        continue
                    reads_heap = any(isinstance(x, (ast.Attribute, ast.Subscript, ast.Call)) for x in ast.walk(v))
                    if reads_heap and not is_path and _impure_call_in(span, env):
                        continue
                    if is_path:
                        attrs = [x.attr for x in ast.walk(v) if isinstance(x, ast.Attribute)]
                        fragile = any(isinstance(x, ast.Subscript) for x in ast.walk(v)) \
                            or any(x in env[0]['rebound'] for x in attrs)
                        if fragile and _impure_call_in(span, env):
                            continue

                    class _Un(ast.NodeTransformer):
                        def visit_NamedExpr(self, n):
                            self.generic_visit(n)
                            if n is w:
                                return _loc(copy.deepcopy(v), n)
                            return n

                        def visit_Name(self, n):
                            if n.id == a and isinstance(n.ctx, ast.Load):
                                return _loc(copy.deepcopy(v), n)
                            return n
                    for k in range(last + 1):
                        lst[i + k] = _Un().visit(lst[i + k])
                    return True
    return False


# --------------------------------------------------------------------------- driver

def _functions(tree):
    for st in tree.body:
        if isinstance(st, ast.FunctionDef):
            yield st
        elif isinstance(st, ast.ClassDef):
            for sub in st.body:
                if isinstance(sub, ast.FunctionDef):
                    yield sub


def _locals_of(func):
    names = set(a.arg for a in func.args.args + func.args.posonlyargs + func.args.kwonlyargs)
    if func.args.vararg:
        names.add(func.args.vararg.arg)
    if func.args.kwarg:
        names.add(func.args.kwarg.arg)
    for n in _own_walk(func):
        if isinstance(n, ast.Name) and isinstance(n.ctx, (ast.Store, ast.Del)):
            names.add(n.id)
    return names


def normalise(tree, ctx=None, mname='', aliases=None, enabled=None):
    """Rewrite `tree` (an ast.Module) in place and return (tree, {rewrite: count})."""
    on = (lambda k: enabled is None or k in enabled)
    ctx = ctx or {'pure': set(), 'rebound': set(), 'external': set()}
    aliases = aliases or {}
    stats = {}

    def bump(k):
        stats[k] = stats.get(k, 0) + 1
    if on('N20'):
        fs = _FStr()
        fs.visit(tree)
        if fs.count:
            stats['N20'] = fs.count
    if on('N8'):
        _ExprCanon().visit(tree)
    if on('N28'):
        # f(**dict(opts))  ->  f(**opts): the callee gets a fresh dictionary with the same entries either way
        for c_ in ast.walk(tree):
            if isinstance(c_, ast.Call):
                for k_ in c_.keywords:
                    if k_.arg is None and isinstance(k_.value, ast.Call) and isinstance(k_.value.func, ast.Name) \
                            and k_.value.func.id == 'dict' and len(k_.value.args) == 1 and not k_.value.keywords \
                            and isinstance(k_.value.args[0], ast.Name):
                        k_.value = k_.value.args[0]
                        bump('N28')
    keepf = ctx.get('keep_funcs')
    refs, calls = {}, {}
    for n in ast.walk(tree):
        if isinstance(n, ast.Name):
            refs[n.id] = refs.get(n.id, 0) + 1
        if isinstance(n, ast.Call) and isinstance(n.func, ast.Name):
            calls[n.func.id] = calls.get(n.func.id, 0) + 1
    public_ok = None
    if keepf is not None and on('N5x'):
        public_ok = (lambda nm: nm not in keepf and nm not in ctx.get('external', set())
                     and refs.get(nm, 0) == calls.get(nm, 0) and calls.get(nm, 0) > 0)
    # `pass` next to other statements says nothing
    for node_ in ast.walk(tree):
        for fld in BLOCK_FIELDS:
            b_ = getattr(node_, fld, None)
            if isinstance(b_, list) and len(b_) > 1 and any(isinstance(x_, ast.Pass) for x_ in b_) and isinstance(b_[0], ast.stmt):
                kept = [x_ for x_ in b_ if not isinstance(x_, ast.Pass)]
                setattr(node_, fld, kept or [b_[0]])
    # N23 assertions without effects say what holds anyway; N22 branches under a literal True / False are not branches
    for node_ in ast.walk(tree):
        for fld in BLOCK_FIELDS:
            b_ = getattr(node_, fld, None)
            if not (isinstance(b_, list) and b_ and isinstance(b_[0], ast.stmt)):
                continue
            out_ = []
            ch_ = False
            for x_ in b_:
                if on('N23') and isinstance(x_, ast.Assert) and _pure_env(x_.test, (ctx, mname, aliases, set())) \
                        and (x_.msg is None or _pure(x_.msg)):
                    ch_ = True
                    stats['N23'] = stats.get('N23', 0) + 1
                    continue
                if on('N22') and isinstance(x_, ast.If) and isinstance(x_.test, ast.Constant) and isinstance(x_.test.value, bool):
                    out_.extend(x_.body if x_.test.value else x_.orelse)
                    ch_ = True
                    stats['N22'] = stats.get('N22', 0) + 1
                    continue
                out_.append(x_)
            if ch_:
                setattr(node_, fld, out_ or [ast.copy_location(ast.Pass(), b_[0])])
    helpers = _expr_helpers(tree, public_ok) if on('N5') else {}
    foreign = ctx.get('xhelpers', {}) if on('N5x') else {}
    sigs = ctx.get('sigs', {}) if on('N14') else {}
    shelpers = _stmt_helpers(tree, set()) if on('N10') else {}
    xstmt = dict((k_, v_) for k_, v_ in ctx.get('xstmt', {}).items() if k_[0] != mname
                 and (keepf is None or k_[1] not in keepf)) if on('N10') else {}
    for func in _functions(tree):
        for _round in range(6):
            changed = False
            if (shelpers or xstmt) and func.name not in shelpers:
                loc_ = _locals_of(func)
                if _block_rewrite(func, lambda s_: _n10_inline_stmt(s_, shelpers, loc_, False, xstmt, aliases)):
                    bump('N10')
                    changed = True
            if on('N10') and _round < 3:
                ch_ = _closure_helpers(func)
                if ch_ and _block_rewrite(func, lambda s_: _n10_inline_stmt(s_, ch_, set(), closure=True)):
                    bump('N10c')
                    changed = True
                    for lst_ in _stmt_lists(func):
                        for d_ in [x_ for x_ in lst_ if isinstance(x_, ast.FunctionDef) and x_.name in ch_]:
                            if len(lst_) > 1 and not any(isinstance(y_, ast.Name) and y_.id == d_.name for y_ in ast.walk(func)):
                                lst_.remove(d_)
            if sigs and _round == 0:
                pz = _Positional(sigs, mname, aliases, _locals_of(func))
                pz.visit(func)
                if pz.count:
                    stats['N14'] = stats.get('N14', 0) + pz.count
                    changed = True
            if (helpers or foreign) and func.name not in helpers:
                inl = _Inline(helpers, _locals_of(func), foreign, aliases)
                inl.visit(func)
                if inl.done:
                    bump('N5')
                    changed = True
            if on('N30'):
                k = 0
                while k < 20 and _n30_sortcopy(func):
                    bump('N30')
                    changed = True
                    k += 1
            if on('N27'):
                k = 0
                while k < 20 and _n27_filterloop(func):
                    bump('N27')
                    changed = True
                    k += 1
            if on('N19'):
                k = 0
                while k < 20 and _n19_collect(func):
                    bump('N19')
                    changed = True
                    k += 1
            if on('N17') and _block_rewrite(func, _n17_update):
                bump('N17')
                changed = True
            if on('N15') and _block_rewrite(func, _n15_dict_init):
                bump('N15')
                changed = True
            if on('N16'):
                k = 0
                while k < 20 and _n16_walrus(func, (ctx, mname, aliases, _locals_of(func))):
                    bump('N16')
                    changed = True
                    k += 1
            if on('N24') and _round < 3 and _n24_kwsets(func):
                bump('N24')
                changed = True
            if on('N26') and _block_rewrite(func, _n26_trykey_update):
                bump('N26')
                changed = True
            if on('N25') and _block_rewrite(func, _n25_trykey):
                bump('N25')
                changed = True
            if on('N25') and _block_rewrite(func, _n25b_suppress):
                bump('N25')
                changed = True
            if on('N21') and _block_rewrite(func, _n21_whiletrue):
                bump('N21')
                changed = True
            if on('N13') and _block_rewrite(func, _n13_annassign):
                bump('N13')
                changed = True
            if on('N3') and _block_rewrite(func, _n3_dictcomp):
                bump('N3')
                changed = True
            if on('N4') and _block_rewrite(func, lambda s: _n4_unroll(s, func)):
                bump('N4')
                changed = True
            if on('N1') and _block_rewrite(func, _n1_ifexp):
                bump('N1')
                changed = True
            if on('N2') and func.args.kwarg and _block_rewrite(func, lambda s: _n2_dictget(s, func.args.kwarg.arg)):
                bump('N2')
                changed = True
            if on('N6'):
                k = 0
                while k < 20 and _n6_alias(func, (ctx, mname, aliases, _locals_of(func))):
                    bump('N6')
                    changed = True
                    k += 1
            if on('N7'):
                k = 0
                while k < 20 and _n7_temp(func):
                    bump('N7')
                    changed = True
                    k += 1
            if not changed:
                break
    ast.fix_missing_locations(tree)
    return tree, stats


# --------------------------------------------------------------------------- package context (purity, re-bound attributes)

MUTATING_METHODS = {'append', 'remove', 'pop', 'extend', 'insert', 'clear', 'sort', 'reverse', 'update', 'add',
                    'discard', 'write', 'close', 'popleft', 'appendleft', 'setdefault', 'popitem', 'flush',
                    'writelines', 'seek', 'read', 'readline', 'readlines', 'next', '__next__', 'send'}
EXTRA_PURE = {'isinstance', 'issubclass', 'hasattr', 'getattr', 'type', 'id', 'hash', 'ord', 'chr', 'round',
              'divmod', 'iter', 'callable', 'ValueError', 'KeyError', 'IndexError', 'TypeError', 'Exception',
              'StopIteration', 'RuntimeError', 'NotImplementedError', 'AssertionError', 'format', 'map', 'filter'}


def _fresh_locals(func):
    """Locals of func that only ever hold objects created in func (container literals, comprehensions,
    results of pure builtins): writing through them does not touch the caller's state."""
    params = _locals_of(func) - set(n.id for n in _own_walk(func) if isinstance(n, ast.Name)
                                    and isinstance(n.ctx, (ast.Store, ast.Del)))
    vals = {}
    bad = set(params)
    for n in _own_walk(func):
        if isinstance(n, ast.Assign):
            for t in n.targets:
                if isinstance(t, ast.Name):
                    vals.setdefault(t.id, []).append(n.value)
                else:
                    for x in ast.walk(t):
                        if isinstance(x, ast.Name) and isinstance(x.ctx, ast.Store):
                            bad.add(x.id)
        elif isinstance(n, (ast.For, ast.comprehension)):
            for x in ast.walk(n.target):
                if isinstance(x, ast.Name):
                    bad.add(x.id)
        elif isinstance(n, (ast.With,)):
            for it in n.items:
                if it.optional_vars is not None:
                    for x in ast.walk(it.optional_vars):
                        if isinstance(x, ast.Name):
                            bad.add(x.id)
        elif isinstance(n, ast.AugAssign) and isinstance(n.target, ast.Name):
            vals.setdefault(n.target.id, []).append(n.value)
        elif isinstance(n, ast.NamedExpr):
            bad.add(n.target.id)
    fresh = set()
    for name, vs in vals.items():
        if name in bad:
            continue
        ok = True
        for v in vs:
            if isinstance(v, (ast.List, ast.Dict, ast.Set, ast.ListComp, ast.DictComp, ast.SetComp, ast.Constant,
                              ast.Tuple, ast.BinOp, ast.JoinedStr, ast.Compare, ast.BoolOp, ast.UnaryOp)):
                continue
            if isinstance(v, ast.Call) and isinstance(v.func, ast.Name) and v.func.id in (
                    'list', 'dict', 'set', 'sorted', 'tuple', 'defaultdict', 'str', 'int', 'len', 'max', 'min',
                    'sum', 'range', 'frozenset'):
                continue
            if isinstance(v, ast.Subscript) and isinstance(v.slice, ast.Slice):
                continue
            ok = False
        if ok:
            fresh.add(name)
    return fresh


def _root(e):
    while isinstance(e, (ast.Attribute, ast.Subscript)):
        e = e.value
    return e.id if isinstance(e, ast.Name) else None


def package_context(mods):
    """mods: {module name: (ast.Module, aliases {local: module}, classes set)} ->
    {'pure': set of (module, function), 'rebound': set of attribute names assigned outside __init__}."""
    funcs = {}
    rebound = set()
    for mname, (tree, aliases, classes) in mods.items():
        for st in tree.body:
            if isinstance(st, ast.FunctionDef):
                funcs[(mname, st.name)] = st
        for f in _functions(tree):
            if f.name == '__init__':
                continue
            for n in _own_walk(f):
                tg = []
                if isinstance(n, ast.Assign):
                    for t in n.targets:
                        tg.extend(t.elts if isinstance(t, (ast.Tuple, ast.List)) else [t])
                elif isinstance(n, (ast.AugAssign, ast.AnnAssign)):
                    tg = [n.target]
                elif isinstance(n, ast.Delete):
                    tg = list(n.targets)
                for t in tg:
                    if isinstance(t, ast.Attribute):
                        rebound.add(t.attr)
    pure = set(funcs)
    # local reasons for impurity
    callees = {}
    for key, f in funcs.items():
        mname = key[0]
        tree, aliases, classes = mods[mname]
        fresh = _fresh_locals(f)
        loc = _locals_of(f)
        ok = True
        cs = set()
        for n in _own_walk(f):
            # (a generator without writes is as free of effects as a function without them)
            if isinstance(n, (ast.Global, ast.Nonlocal, ast.Await, ast.With, ast.Import,
                              ast.ImportFrom, ast.FunctionDef, ast.ClassDef)):
                ok = False
            tg = []
            if isinstance(n, ast.Assign):
                for t in n.targets:
                    tg.extend(t.elts if isinstance(t, (ast.Tuple, ast.List)) else [t])
            elif isinstance(n, (ast.AugAssign, ast.AnnAssign)):
                tg = [n.target]
            elif isinstance(n, ast.Delete):
                tg = list(n.targets)
            for t in tg:
                if isinstance(t, (ast.Attribute, ast.Subscript)) and _root(t) not in fresh:
                    ok = False
            if isinstance(n, ast.Call):
                fn = n.func
                if isinstance(fn, ast.Name):
                    if fn.id in loc:
                        ok = False
                    elif (mname, fn.id) in funcs:
                        cs.add((mname, fn.id))
                    elif fn.id in PURE_BUILTINS or fn.id in EXTRA_PURE:
                        pass
                    else:
                        ok = False
                elif isinstance(fn, ast.Attribute):
                    if isinstance(fn.value, ast.Name) and fn.value.id in aliases and fn.value.id not in loc:
                        tgt = (aliases[fn.value.id], fn.attr)
                        if tgt in funcs:
                            cs.add(tgt)
                        else:
                            ok = False
                    elif fn.attr in PURE_METHODS:
                        pass
                    elif fn.attr in MUTATING_METHODS and _root(fn.value) in fresh:
                        pass
                    else:
                        ok = False
                else:
                    ok = False
        callees[key] = cs
        if not ok:
            pure.discard(key)
    changed = True
    while changed:
        changed = False
        for key in list(pure):
            if any(c not in pure for c in callees[key]):
                pure.discard(key)
                changed = True
    external = set()
    for mname, (tree, aliases, classes) in mods.items():
        for n in ast.walk(tree):
            if isinstance(n, ast.Attribute) and isinstance(n.value, ast.Name) and n.value.id in aliases:
                external.add(n.attr)
            if isinstance(n, ast.Call) and isinstance(n.func, ast.Name) and n.func.id in ('getattr', 'globals'):
                external.add('*dynamic*')
    # modules whose functions are looked up by name at run time keep all their functions addressable
    dynamic = set()
    for mname, (tree, aliases, classes) in mods.items():
        for n in ast.walk(tree):
            if isinstance(n, ast.Call) and isinstance(n.func, ast.Name) and n.func.id == 'getattr' and n.args \
                    and isinstance(n.args[0], ast.Name) and n.args[0].id in aliases:
                dynamic.add(aliases[n.args[0].id])
            if isinstance(n, ast.Call) and isinstance(n.func, ast.Name) and n.func.id == 'globals':
                dynamic.add(mname)
    # plain positional parameter lists (N14) and single-expression helpers usable from other modules (N5x)
    import builtins
    sigs = {}
    xhelpers = {}
    xstmt = {}
    for mname, (tree, aliases, classes) in mods.items():
        top = set()
        imported = set()
        for st in tree.body:
            if isinstance(st, (ast.FunctionDef, ast.ClassDef)):
                top.add(st.name)
            elif isinstance(st, ast.Assign):
                for t in st.targets:
                    top |= set(n.id for n in ast.walk(t) if isinstance(n, ast.Name))
            elif isinstance(st, (ast.Import, ast.ImportFrom)):
                for a in st.names:
                    imported.add((a.asname or a.name).split('.')[0])
        ndefs = {}
        for st in tree.body:
            if isinstance(st, ast.FunctionDef):
                ndefs[st.name] = ndefs.get(st.name, 0) + 1
        for st in tree.body:
            if isinstance(st, ast.FunctionDef) and ndefs[st.name] == 1 and not st.decorator_list:
                a = st.args
                if not (a.vararg or a.posonlyargs):
                    sigs[(mname, st.name)] = [x.arg for x in a.args]
        for name, (st, e) in _expr_helpers(tree, lambda nm: True).items():
            if ndefs.get(name) != 1:
                continue
            params = set(x.arg for x in st.args.args)
            bound = set()
            for x in ast.walk(e):
                if isinstance(x, ast.comprehension):
                    bound |= _names(x.target)
                if isinstance(x, ast.Lambda):
                    bound |= set(y.arg for y in x.args.args)
            free = _names(e) - params - bound
            modnames = set(n for n in free if n in top)
            rest = free - modnames
            if any(n in imported or not hasattr(builtins, n) for n in rest):
                continue
            xhelpers[(mname, name)] = (st, e, sorted(modnames))
        for name, (st, body) in _stmt_helpers(tree, set(), None, True).items():
            if ndefs.get(name) != 1 or mname in dynamic and not name.startswith('_'):
                continue
            params = set(x.arg for x in st.args.args)
            assigned = set(x.id for b in body for x in ast.walk(b) if isinstance(x, ast.Name) and isinstance(x.ctx, (ast.Store, ast.Del)))
            free = set(x.id for b in body for x in ast.walk(b) if isinstance(x, ast.Name)) - params - assigned
            modnames = set(n for n in free if n in top)
            rest = free - modnames
            if any(n in imported or not hasattr(builtins, n) for n in rest):
                continue
            xstmt[(mname, name)] = (st, body, sorted(modnames))
    return {'pure': pure, 'rebound': rebound, 'external': external, 'dynamic': dynamic, 'sigs': sigs,
            'xhelpers': xhelpers, 'xstmt': xstmt}


# --------------------------------------------------------------------------- N18 import style

def canonicalise_imports(tree, pkg, modules, own, homes=None):
    """Rewrite the module so that every package module is known under its own name and every function / constant of
    another package module is reached through it.  Returns the number of names rewritten.
    homes: {name: [modules]} where the checker's reference tree defines each top-level name; a name imported into the
    module that used to define it (the definition moved, the import keeps the old name alive) stays a module-level name
    here: `X = module.X`, uses untouched."""
    alias_map = {}      # local alias -> module
    direct = {}         # local name -> (module, original name)
    reexport = []       # (local name, module, original name)
    keep = []
    changed = False
    homes = homes or {}
    for st in tree.body:
        if isinstance(st, ast.ImportFrom):
            rel_pkg = (st.level >= 1 and not st.module) or (st.level == 0 and st.module == pkg)
            sub = None
            if st.level >= 1 and st.module in modules:
                sub = st.module
            elif st.level == 0 and st.module and st.module.startswith(pkg + '.') and st.module[len(pkg) + 1:] in modules:
                sub = st.module[len(pkg) + 1:]
            if rel_pkg and all(a.name in modules for a in st.names):
                for a in st.names:
                    if a.asname and a.asname != a.name:
                        alias_map[a.asname] = a.name
                        changed = True
                    else:
                        alias_map.setdefault(a.name, a.name)
                continue
            if sub is not None and sub != own and all(a.name != '*' for a in st.names):
                for a in st.names:
                    if own in homes.get(a.asname or a.name, ()):
                        reexport.append((a.asname or a.name, sub, a.name))
                    else:
                        direct[a.asname or a.name] = (sub, a.name)
                changed = True
                continue
        elif isinstance(st, ast.Import):
            subs = [(a, a.name[len(pkg) + 1:]) for a in st.names if a.name.startswith(pkg + '.') and a.name[len(pkg) + 1:] in modules
                    and a.asname]
            if subs and len(subs) == len(st.names):
                for a, m in subs:
                    alias_map[a.asname] = m
                changed = True
                continue
        keep.append(st)
    if not changed:
        return 0
    needed = set(alias_map.values()) | set(m for (m, _) in direct.values()) | set(m for (_, m, _) in reexport)
    # module-level bindings that would collide with a canonical module name: give up on that module
    top_bound = set()
    for st in keep:
        if isinstance(st, (ast.FunctionDef, ast.ClassDef)):
            top_bound.add(st.name)
        elif isinstance(st, ast.Assign):
            for t in st.targets:
                top_bound |= set(n.id for n in ast.walk(t) if isinstance(n, ast.Name))
    if needed & top_bound:
        return 0
    count = [0]

    class _Imp(ast.NodeTransformer):
        def __init__(self):
            self.scopes = []

        def visit_FunctionDef(self, n):
            self.scopes.append(_locals_of(n))
            self.generic_visit(n)
            self.scopes.pop()
            return n

        def visit_Lambda(self, n):
            self.scopes.append(set(a.arg for a in n.args.args))
            self.generic_visit(n)
            self.scopes.pop()
            return n

        def _bound(self, name):
            return any(name in sc for sc in self.scopes)

        def visit_Name(self, n):
            if not isinstance(n.ctx, ast.Load) or self._bound(n.id):
                return n
            if n.id in alias_map and alias_map[n.id] != n.id and not self._bound(alias_map[n.id]):
                count[0] += 1
                return ast.copy_location(ast.Name(id=alias_map[n.id], ctx=ast.Load()), n)
            if n.id in direct and not self._bound(direct[n.id][0]):
                count[0] += 1
                m, orig = direct[n.id]
                return ast.copy_location(ast.Attribute(value=ast.Name(id=m, ctx=ast.Load()), attr=orig, ctx=ast.Load()), n)
            return n
    body = [_Imp().visit(st) for st in keep]
    imp = ast.ImportFrom(module=None, names=[ast.alias(name=m, asname=None) for m in sorted(needed)], level=1)
    # keep a leading docstring / __future__ imports in front
    k = 0
    while k < len(body) and ((isinstance(body[k], ast.Expr) and isinstance(body[k].value, ast.Constant)) or (
            isinstance(body[k], ast.ImportFrom) and body[k].module == '__future__')):
        k += 1
    back = [ast.Assign(targets=[ast.Name(id=x, ctx=ast.Store())],
                       value=ast.Attribute(value=ast.Name(id=m, ctx=ast.Load()), attr=y, ctx=ast.Load())) for (x, m, y) in reexport]
    tree.body = body[:k] + [imp] + back + body[k:]
    ast.fix_missing_locations(tree)
    return count[0] + len(back)


# --------------------------------------------------------------------------- N11 named constants

def module_constants(tree):
    """{NAME: ast.Constant} for module-level names bound exactly once, at module level, to an int or str literal."""
    counts = {}
    vals = {}
    for st in tree.body:
        if isinstance(st, ast.Assign) and len(st.targets) == 1 and isinstance(st.targets[0], ast.Name):
            nm = st.targets[0].id
            counts[nm] = counts.get(nm, 0) + 1
            if isinstance(st.value, ast.Constant) and isinstance(st.value.value, (int, str)):
                vals[nm] = st.value          # (switches like _DEBUG = False included)
        elif isinstance(st, (ast.AugAssign, ast.AnnAssign)) and isinstance(st.target, ast.Name):
            counts[st.target.id] = counts.get(st.target.id, 0) + 2
    for n in ast.walk(tree):
        if isinstance(n, (ast.Global,)):
            for nm in n.names:
                counts[nm] = counts.get(nm, 0) + 2
    # any spelling: MAX_RANK, _K_word, default_label ... (dunder names are module metadata, not program constants)
    out = dict((k, v) for k, v in vals.items() if counts.get(k) == 1 and not (k.startswith('__') and k.endswith('__')))
    # members of an enumeration with literal values: `Kind.MEMBER.value` is that literal (key 'Kind.MEMBER')
    for st in tree.body:
        if isinstance(st, ast.ClassDef) and counts.get(st.name, 0) == 0 and st.bases and all(
                ast.unparse(b).split('.')[-1] in ('Enum', 'IntEnum', 'StrEnum', 'str', 'int') for b in st.bases) and any(
                ast.unparse(b).split('.')[-1] in ('Enum', 'IntEnum', 'StrEnum') for b in st.bases):
            seen = {}
            for sub in st.body:
                if isinstance(sub, ast.Assign) and len(sub.targets) == 1 and isinstance(sub.targets[0], ast.Name):
                    seen[sub.targets[0].id] = seen.get(sub.targets[0].id, 0) + 1
            for sub in st.body:
                if isinstance(sub, ast.Assign) and len(sub.targets) == 1 and isinstance(sub.targets[0], ast.Name) \
                        and seen[sub.targets[0].id] == 1 and isinstance(sub.value, ast.Constant) \
                        and isinstance(sub.value.value, (int, str)) and not sub.targets[0].id.startswith('_'):
                    out['%s.%s' % (st.name, sub.targets[0].id)] = sub.value
    return out


class _Consts(ast.NodeTransformer):
    """Replace references to named literal constants by the literal (names the rules know are kept)."""

    def __init__(self, own, foreign, aliases, keep):
        self.own = own              # {NAME: Constant} of this module
        self.foreign = foreign      # {module: {NAME: Constant}}
        self.aliases = aliases
        self.keep = keep
        self.scopes = []
        self.count = 0

    def visit_FunctionDef(self, n):
        self.scopes.append(_locals_of(n))
        self.generic_visit(n)
        self.scopes.pop()
        return n

    def _shadowed(self, name):
        return any(name in s for s in self.scopes)

    def visit_Name(self, n):
        if isinstance(n.ctx, ast.Load) and n.id in self.own and n.id not in self.keep and not self._shadowed(n.id) \
                and self.scopes:
            self.count += 1
            return _loc(copy.deepcopy(self.own[n.id]), n)
        return n

    def visit_Attribute(self, n):
        # Kind.MEMBER.value of an enumeration of this module
        if isinstance(n.ctx, ast.Load) and n.attr == 'value' and isinstance(n.value, ast.Attribute) \
                and isinstance(n.value.value, ast.Name) and self.scopes and not self._shadowed(n.value.value.id) \
                and '%s.%s' % (n.value.value.id, n.value.attr) in self.own:
            self.count += 1
            return _loc(copy.deepcopy(self.own['%s.%s' % (n.value.value.id, n.value.attr)]), n)
        if isinstance(n.ctx, ast.Load) and isinstance(n.value, ast.Name) and n.value.id in self.aliases \
                and not self._shadowed(n.value.id) and self.scopes:
            m = self.aliases[n.value.id]
            if n.attr in self.foreign.get(m, {}) and n.attr not in self.keep:
                self.count += 1
                return _loc(copy.deepcopy(self.foreign[m][n.attr]), n)
        self.generic_visit(n)
        return n


def substitute_constants(tree, mname, aliases, all_consts, keep):
    t = _Consts(all_consts.get(mname, {}), all_consts, aliases, keep)
    t.visit(tree)
    return t.count
