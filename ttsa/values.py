"""Guarded value cases: which expressions can a local hold at a program point, and under which conditions.

    x = A                       cases of x at the use:   [not c] -> A
    if c:                                                 [c]     -> B
        x = B
    use(x)

The conditions are the atomic branch conditions (core.norm_test normal forms) that hold on *every* path from the
definition to the use that does not pass another definition of the same name, plus the ones that dominate the
definition.  if/else, default-then-if, early `continue`, conditional expressions and chains through other locals
all come out as the same set of cases.
"""
import ast

from .core import norm_test, split_assumes, facts_at, Unrecognised, unparse
from .events import name_defs


def reaching_defs(func, name, at):
    """Definitions (cfg node id, value) of local `name` from which `at` can be reached without passing another
    definition of it."""
    cfg = func.cfg
    defs = name_defs(func, name)
    ids = set(d[0] for d in defs)
    out = []
    for d in defs:
        others = ids - {d[0]}
        if d[0] == at:
            continue
        if at in cfg.reach(d[0], avoid=frozenset(others)):
            out.append(d)
    return out


def carried_over(func, name, at):
    """Definitions of `name` inside a loop around `at` whose value can arrive at `at` in a *later* iteration: the
    loop header is reachable from the definition and `at` from the header, meeting no definition of the name."""
    cfg = func.cfg
    ids = frozenset(d[0] for d in name_defs(func, name))
    out = []
    for nid in ids:
        for h in cfg.nodes[at].loops:
            if h not in cfg.nodes[nid].loops:
                continue
            if h in cfg.reach(nid, avoid=ids - {nid}) and (at == h or at in cfg.reach(h, avoid=ids)):
                out.append(nid)
                break
    return out


def path_facts(cfg, d, at, avoid=frozenset()):
    """Normal forms of the assume nodes every path d -> at (avoiding `avoid`) passes through."""
    avoid = frozenset(avoid)
    region = cfg.reach(d, avoid=avoid) & (cfg.coreach(at, avoid=avoid) | {at})
    out = []
    for m in sorted(region):
        node = cfg.nodes[m]
        if node.kind != 'assume' or m == at:
            continue
        if at not in cfg.reach(d, avoid=avoid | {m}):
            out.append((norm_test(node.ast, node.pol), m))
            out.extend(_flag_expansion(cfg, node))
    return out


def _flag_expansion(cfg, node):
    from .core import _unique_assign
    fa = norm_test(node.ast, node.pol)
    out = []
    if fa[0] == 'truthy' and fa[1].isidentifier():
        v = _unique_assign(cfg.func, fa[1])
        if isinstance(v, (ast.Compare, ast.BoolOp, ast.UnaryOp)):
            for (e, p) in split_assumes(v, fa[2]):
                out.append((norm_test(e, p), node.id))
    return out


class Case(object):
    __slots__ = ('facts', 'value', 'node', 'kind')

    def __init__(self, facts, value, node, kind='value'):
        self.facts = facts      # list of normal-form facts
        self.value = value      # ast expression, or None when kind != 'value'
        self.node = node        # cfg node of the definition
        self.kind = kind        # 'value' | 'param' | 'iter' | 'aug' | 'other'

    @property
    def text(self):
        return unparse(self.value) if self.value is not None else '<%s>' % self.kind

    def has(self, fact):
        return fact in self.facts

    def __repr__(self):
        return '<%s if %s>' % (self.text, self.facts)


def value_cases(func, name, at, expand=True, _depth=0):
    """[Case] for local `name` at cfg node `at`.  A definition whose value is another local is expanded through
    that local's own cases (expand=True, three levels)."""
    cfg = func.cfg
    defs = name_defs(func, name)
    ids = frozenset(d[0] for d in defs)
    out = []
    rd = reaching_defs(func, name, at)
    if name in func.params and cfg.entry is not None:
        # the parameter value reaches `at` if some path from the entry avoids every definition
        if at in cfg.reach(cfg.entry, avoid=ids):
            out.append(Case([f for (f, _) in path_facts(cfg, cfg.entry, at, ids)], None, cfg.entry, 'param'))
    for (nid, val) in rd:
        facts = [f for (f, _) in facts_at(cfg, nid)] + [f for (f, _) in path_facts(cfg, nid, at, ids - {nid})]
        if isinstance(val, ast.IfExp):
            for (v2, pol) in ((val.body, True), (val.orelse, False)):
                extra = [norm_test(e, p) for (e, p) in split_assumes(val.test, pol)]
                out.append(Case(facts + extra, v2, nid))
            continue
        if isinstance(val, ast.AST):
            if expand and isinstance(val, ast.Name) and val.id in func.locals and val.id != name and _depth < 3:
                sub = value_cases(func, val.id, nid, True, _depth + 1)
                if sub and all(c.kind == 'value' for c in sub):
                    for c in sub:
                        out.append(Case(facts + c.facts, c.value, nid))
                    continue
            out.append(Case(facts, val, nid))
        elif isinstance(val, tuple):
            out.append(Case(facts, None, nid, val[0]))
        else:
            out.append(Case(facts, None, nid, 'other'))
    return out


def expr_cases(func, e, at):
    """Cases of an arbitrary expression: a local name is expanded, anything else is one unconditional case."""
    if isinstance(e, ast.Name) and e.id in func.locals:
        cs = value_cases(func, e.id, at)
        if cs:
            return cs
    if isinstance(e, ast.IfExp):
        out = []
        for (v2, pol) in ((e.body, True), (e.orelse, False)):
            out.append(Case([norm_test(x, p) for (x, p) in split_assumes(e.test, pol)], v2, at))
        return out
    return [Case([], e, at)]


def is_empty_fact(facts, text, empty=True):
    """Do the facts say that the sequence denoted by `text` is empty (empty=True) / non-empty (False)?"""
    L = 'len(%s)' % text
    for fa in facts:
        if fa[0] == 'truthy' and fa[1] == text and fa[2] is (not empty):
            return True
        if fa[0] == 'cmp':
            if empty and fa in (('cmp', L, '==', '0'), ('cmp', L, '<', '1'), ('cmp', L, '<=', '0')):
                return True
            if not empty and fa in (('cmp', L, '!=', '0'), ('cmp', '0', '<', L), ('cmp', '1', '<=', L),
                                    ('cmp', '0', '!=', L)):
                return True
            if empty and fa in (('cmp', text, '==', "''"), ('cmp', text, '==', '[]')):
                return True
            if not empty and fa in (('cmp', text, '!=', "''"), ('cmp', text, '!=', '[]')):
                return True
    return False


# --------------------------------------------------------------------------- boolean expressions as truth tables

def bool_eval(func, e, at, env, _depth=0):
    """Truth value of boolean expression `e` (evaluated at cfg node `at`) under an assignment `env` of truth values
    to atom texts.  Locals are followed through their guarded value cases.  Raises Unrecognised when something
    other than the atoms, constants, not/and/or, conditional expressions and such locals is involved."""
    if _depth > 6:
        raise Unrecognised('boolean expression too deep')
    txt = unparse(e)
    if txt in env:
        return env[txt]
    if isinstance(e, ast.Constant) and isinstance(e.value, bool):
        return e.value
    if isinstance(e, ast.UnaryOp) and isinstance(e.op, ast.Not):
        return not bool_eval(func, e.operand, at, env, _depth + 1)
    if isinstance(e, ast.BoolOp):
        vals = [bool_eval(func, v, at, env, _depth + 1) for v in e.values]
        return all(vals) if isinstance(e.op, ast.And) else any(vals)
    if isinstance(e, ast.IfExp):
        return bool_eval(func, e.body if bool_eval(func, e.test, at, env, _depth + 1) else e.orelse, at, env, _depth + 1)
    if isinstance(e, ast.Compare) and len(e.ops) == 1 and isinstance(e.comparators[0], ast.Constant) \
            and isinstance(e.comparators[0].value, bool) and isinstance(e.ops[0], (ast.Eq, ast.Is, ast.NotEq, ast.IsNot)):
        v = bool_eval(func, e.left, at, env, _depth + 1)
        same = v == e.comparators[0].value
        return same if isinstance(e.ops[0], (ast.Eq, ast.Is)) else not same
    if isinstance(e, ast.Name) and e.id in func.locals:
        cases = value_cases(func, e.id, at, expand=False)
        if not cases:
            raise Unrecognised('no definition of `%s` reaches' % e.id)
        hits = []
        for c in cases:
            if c.kind != 'value':
                raise Unrecognised('`%s` is not defined by plain assignments' % e.id)
            holds = True
            for fa in c.facts:
                if fa[0] == 'truthy' and fa[1] in env:
                    if env[fa[1]] != fa[2]:
                        holds = False
                elif fa[0] == 'truthy' and fa[1].isidentifier() and fa[1] in func.locals:
                    try:
                        if bool_eval(func, ast.Name(id=fa[1], ctx=ast.Load()), c.node, env, _depth + 1) != fa[2]:
                            holds = False
                    except Unrecognised:
                        pass          # a condition on something else: does not discriminate between the cases here
            if holds:
                hits.append(c)
        if not hits:
            raise Unrecognised('no case of `%s` applies' % e.id)
        vals = set(bool_eval(func, c.value, c.node, env, _depth + 1) for c in hits)
        if len(vals) != 1:
            raise Unrecognised('cases of `%s` are not discriminated by the atoms' % e.id)
        return vals.pop()
    raise Unrecognised('`%s` is not a boolean combination of the atoms' % txt[:60])


def truth_table(func, e, at, atoms):
    """tuple of truth values over all assignments of `atoms` (list of texts), in binary counting order."""
    out = []
    n = len(atoms)
    for k in range(2 ** n):
        env = dict((a, bool((k >> i) & 1)) for i, a in enumerate(atoms))
        out.append(bool_eval(func, e, at, env))
    return tuple(out)


def cond_eval(func, e, env, atom_of, _depth=0):
    """Truth value of condition `e` under `env` (atom name -> bool).  atom_of(fact) -> (atom name, sense) | None maps
    the normal form of a leaf comparison (and its expansions through single-definition locals) to an atom."""
    from .core import _expand_fact
    if isinstance(e, ast.UnaryOp) and isinstance(e.op, ast.Not):
        return not cond_eval(func, e.operand, env, atom_of, _depth + 1)
    if isinstance(e, ast.BoolOp):
        vals = [cond_eval(func, v, env, atom_of, _depth + 1) for v in e.values]
        return all(vals) if isinstance(e.op, ast.And) else any(vals)
    for pol in (True, False):
        fa = norm_test(e, pol)
        out = [(fa, 0)]
        _expand_fact(func, fa, 0, out)
        for (g, _) in out:
            r = atom_of(g)
            if r is not None:
                name, sense = r
                v = env[name] == sense
                return v if pol else (not v)
    if isinstance(e, ast.Name) and e.id in func.locals and _depth < 4:
        from .core import _unique_assign
        v = _unique_assign(func, e.id)
        if isinstance(v, (ast.BoolOp, ast.Compare, ast.UnaryOp)):
            return cond_eval(func, v, env, atom_of, _depth + 1)
    raise Unrecognised('condition `%s` is not one of the atoms' % unparse(e)[:60])


def guard_table(func, at, atoms, atom_of, within=None):
    """Truth table (over `atoms`, binary counting order) of the conjunction of all branch conditions that dominate cfg
    node `at` (restricted to conditions evaluated inside loop `within`, if given).  Conditions that mention none of the
    atoms' vocabulary raise Unrecognised unless `ignore` says they are irrelevant."""
    cfg = func.cfg
    conds = [a for a in cfg.assumes_at(at) if within is None or within in a.loops]
    tests = [(a.ast, a.pol) for a in conds]
    out = []
    for k in range(2 ** len(atoms)):
        env = dict((a, bool((k >> i) & 1)) for i, a in enumerate(atoms))
        v = True
        for (t, pol) in tests:
            r = cond_eval(func, t, env, atom_of)
            v = v and (r == pol)
        out.append(v)
    return tuple(out), tests
