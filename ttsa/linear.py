"""Integer-linear normal form of comparisons.

    a + 1 < b      b > a + 1      b - a - 1 > 0      not b <= a + 1      gap = b - a - 1 ... gap >= 1

all denote   b - a >= 2.   A comparison is brought to   sum(coef_i * atom_i) <= c   (or == / !=) over the integers, with
atoms being the maximal non-arithmetic sub-expressions (names, calls, subscripts) by their text.  Locals with a single,
purely arithmetic definition are substituted first.  Two comparisons with the same normal form are equivalent on
integers; the same atoms with another constant or relation are provably different.
"""
import ast

from .core import unparse, _unique_assign


def linear(func, e, depth=0):
    """({atom text: coefficient}, constant) or None if e is not integer-linear in its atoms."""
    if isinstance(e, ast.Constant):
        if isinstance(e.value, bool) or not isinstance(e.value, int):
            return None
        return {}, e.value
    if isinstance(e, ast.UnaryOp) and isinstance(e.op, ast.USub):
        r = linear(func, e.operand, depth)
        if r is None:
            return None
        return dict((k, -v) for k, v in r[0].items()), -r[1]
    if isinstance(e, ast.BinOp) and isinstance(e.op, (ast.Add, ast.Sub)):
        l, r = linear(func, e.left, depth), linear(func, e.right, depth)
        if l is None or r is None:
            return None
        sign = 1 if isinstance(e.op, ast.Add) else -1
        out = dict(l[0])
        for k, v in r[0].items():
            out[k] = out.get(k, 0) + sign * v
        return dict((k, v) for k, v in out.items() if v != 0), l[1] + sign * r[1]
    if isinstance(e, ast.BinOp) and isinstance(e.op, ast.Mult):
        for a, b in ((e.left, e.right), (e.right, e.left)):
            if isinstance(a, ast.Constant) and isinstance(a.value, int) and not isinstance(a.value, bool):
                r = linear(func, b, depth)
                if r is None:
                    return None
                return dict((k, v * a.value) for k, v in r[0].items() if v * a.value != 0), r[1] * a.value
        return None
    if isinstance(e, ast.Name) and func is not None and e.id in func.locals and depth < 4:
        v = _unique_assign(func, e.id)
        if isinstance(v, (ast.BinOp, ast.UnaryOp)) and not any(isinstance(x, ast.Name) and x.id == e.id for x in ast.walk(v)):
            r = linear(func, v, depth + 1)
            if r is not None:
                return r
    if isinstance(e, (ast.Name, ast.Attribute, ast.Subscript, ast.Call)):
        return {unparse(e): 1}, 0
    return None


def norm_cmp(func, left, op, right):
    """('le' | 'eq' | 'ne', ((atom, coef), ...), c)  meaning  sum(coef * atom) <= c  (== c, != c); None if not linear."""
    l, r = linear(func, left), linear(func, right)
    if l is None or r is None:
        return None

    def diff(a, b):          # a - b
        out = dict(a[0])
        for k, v in b[0].items():
            out[k] = out.get(k, 0) - v
        return dict((k, v) for k, v in out.items() if v != 0), a[1] - b[1]
    if isinstance(op, (ast.Lt, ast.LtE)):
        d, c = diff(l, r)            # l - r < 0  /  <= 0
        bound = -c - (1 if isinstance(op, ast.Lt) else 0)
        return ('le', tuple(sorted(d.items())), bound)
    if isinstance(op, (ast.Gt, ast.GtE)):
        d, c = diff(r, l)
        bound = -c - (1 if isinstance(op, ast.Gt) else 0)
        return ('le', tuple(sorted(d.items())), bound)
    if isinstance(op, (ast.Eq, ast.NotEq)):
        d, c = diff(l, r)
        items = sorted(d.items())
        if items and items[0][1] < 0:
            items = [(k, -v) for k, v in items]
            c = -c
        return ('eq' if isinstance(op, ast.Eq) else 'ne', tuple(items), -c)
    return None


def norm_compare(func, cmp_node, pol=True):
    """Normal form of an ast.Compare (single operator), negated if pol is False."""
    if not (isinstance(cmp_node, ast.Compare) and len(cmp_node.ops) == 1):
        return None
    op = cmp_node.ops[0]
    if not pol:
        neg = {ast.Lt: ast.GtE, ast.LtE: ast.Gt, ast.Gt: ast.LtE, ast.GtE: ast.Lt, ast.Eq: ast.NotEq, ast.NotEq: ast.Eq}
        if type(op) not in neg:
            return None
        op = neg[type(op)]()
    return norm_cmp(func, cmp_node.left, op, cmp_node.comparators[0])


def difference_bound(nf):
    """For a normal form  x - y <= c  (two atoms, coefficients +1 / -1) return (x, y, c), i.e.  y - x >= -c."""
    if nf is None or nf[0] != 'le' or len(nf[1]) != 2:
        return None
    (a, ca), (b, cb) = nf[1]
    if ca == 1 and cb == -1:
        return (a, b, nf[2])
    if ca == -1 and cb == 1:
        return (b, a, nf[2])
    return None
