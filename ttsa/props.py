"""Mapping property -> rules, with the explanation that goes into the evidence."""
from .rules import (generic_rules, tree_rules, order_rules, opt_rules, gram_rules, driver_rules, writer_rules, edit_rules,
                    head_rules, reader_rules, extra_rules)

RULES = {
    'R-LINK': tree_rules.r_link,
    'R-KEEP': tree_rules.r_keep,
    'R-ROOT': tree_rules.r_root,
    'R-FRAME': tree_rules.r_frame,
    'R-STALE': tree_rules.r_stale,
    'R-PUNCTSEL': tree_rules.r_punctsel,
    'R-ORDERED': order_rules.r_ordered,
    'R-LEVELS': order_rules.r_levels,
    'R-EXPNUM': order_rules.r_expnum,
    'R-NAV': order_rules.r_nav,
    'R-OPTKEY': opt_rules.r_optkey,
    'DECOR': opt_rules.r_decor,
    'R-SIBLING': opt_rules.r_sibling,
    'R-ACCUM': gram_rules.r_accum,
    'R-ARITY': gram_rules.r_arity,
    'R-ARGPOS': gram_rules.r_argpos,
    'R-INVERSEMAP': gram_rules.r_inversemap,
    'R-MUSTUSE': gram_rules.r_mustuse,
    'R-ENC': gram_rules.r_enc,
    'R-IDCOUNTER': gram_rules.r_idcounter,
    'R-SORTEDPOS': gram_rules.r_sortedpos,
    'R-DISCONT': gram_rules.r_discont,
    'R-FRAMEFILE': driver_rules.r_framefile,
    'R-DISPATCH': driver_rules.r_dispatch,
    'R-SPLITARITH': driver_rules.r_splitarith,
    'R-STATE': driver_rules.r_state,
    'R-NONE': writer_rules.r_none,
    'R-ESC': writer_rules.r_esc,
    'R-VOCAB': writer_rules.r_vocab,
    'R-TABS': writer_rules.r_tabs,
    'R-GUARD': writer_rules.r_guard,
    'R-EDIT': edit_rules.r_edit,
    'R-LABELEDIT': edit_rules.r_labeledit,
    'R-LABELFIELDS': edit_rules.r_labelfields,
    'R-LABELSPLIT': edit_rules.r_labelsplit,
    'R-DISCOORDER': edit_rules.r_discoorder,
    'R-EDGE': edit_rules.r_edge,
    'R-HEADS': head_rules.r_heads,
    'R-FLAGS': head_rules.r_flags,
    'R-READER-STATE': reader_rules.r_reader_state,
    'R-AUTOMATON': reader_rules.r_automaton,
    'R-MEMO': extra_rules.r_memo,
    'R-LOOPSTRIP': extra_rules.r_loopstrip,
    'R-OPENMODE': extra_rules.r_openmode,
    'R-LITERALS': extra_rules.r_literals,
    'R-RECURSE': extra_rules.r_recurse,
    'R-REPORT': extra_rules.r_report,
    'R-DIRMODE': extra_rules.r_dirmode,
    'R-SYMTARGET': extra_rules.r_symtarget,
    'R-ROOTSCAN': extra_rules.r_rootscan,
    'R-LEAFGUARD': extra_rules.r_leafguard,
    'R-NODELINE': extra_rules.r_nodeline,
    'R-OPTSIDE': driver_rules.r_optside,
    'R-PAIRUSE': gram_rules.r_pairuse,
    'R-PERTREE': driver_rules.r_pertree,
    'R-SUBSTR': generic_rules.r_substr,
    'R-DEADCHECK': generic_rules.r_deadcheck,
    'R-FALSYZERO': generic_rules.r_falsyzero,
    'R-DICTCOMP': generic_rules.r_dictcomp,
    'R-STALEACC': generic_rules.r_staleacc,
    'R-ZEROTABLE': generic_rules.r_zerotable,
    'R-LEAKVAR': generic_rules.r_leakvar,
    'R-STRSORT': generic_rules.r_strsort,
    'R-FMTDATA': generic_rules.r_fmtdata,
    'R-COUNTERUNION': generic_rules.r_counterunion,
    'R-INSTR': generic_rules.r_instr,
    'R-ORDEFAULT': generic_rules.r_ordefault,
    'R-KEYCOPY': generic_rules.r_keycopy,
    'R-SHAREDMUT': generic_rules.r_sharedmut,
    'R-SHAREDTABLE': generic_rules.r_sharedtable,
    'R-ONESHOT': generic_rules.r_oneshot,
    'R-LOOPRESET': generic_rules.r_loopreset,
    'R-WRONGCHECK': generic_rules.r_wrongcheck,
    'R-STALESNAP': generic_rules.r_stalesnap,
    'R-INDEXBYVALUE': generic_rules.r_indexbyvalue,
    'R-COUNTERSTR': generic_rules.r_counterstr,
    'R-MAXSTEP': generic_rules.r_maxstep,
}


def site(*prefixes):
    return lambda o: any(o.site.startswith(p) for p in prefixes)


def rule(*prefixes):
    return lambda o: any(o.rule.startswith(p) for p in prefixes)


def both(a, b):
    return lambda o: a(o) and b(o)


def either(a, b):
    return lambda o: a(o) or b(o)


COMMON_ASSUMPTIONS = [
    'the analysis reads the source text of /repo/trees/*.py and /repo/treetools; nothing is executed',
    'callees are resolved through the package\'s own import discipline (from . import m; m.f(...) or f(...)); '
    'dynamic dispatch is confined to getattr(<module>, name)/globals()[name] on the registries',
    'two access paths denote the same value when they are textually equal after alias resolution and no '
    'assignment to a prefix lies between them on any path (kill-based value numbering)',
    'tables in the rule modules (DISCARD, FILTER, FRAME, PURE, MANDATORY, PROTOCOL, FRESH-KEY, ENC, STATE, SET) '
    'name symbols with a one-line reason; their structural premises are checked where stated',
]

PUNCT = ('transform.punctuation_verylow', 'transform.punctuation_symetrify', 'transform.punctuation_root')
EDITORS = ('transform.punctuation_delete', 'transform.ptb_delete_traces', 'transform.insert_terminals',
           'transform.substitute_terminals', 'transform.filter_by_length', 'trees.delete_terminal')

PROPS = {
    'C01': {
        'rules': ['R-AUTOMATON', 'R-READER-STATE', 'R-LINK', 'R-SIBLING', 'R-OPTKEY', 'R-ENC', 'R-ROOTSCAN', 'R-NODELINE', 'R-STATE', 'R-LABELSPLIT'],
        'filter': {'R-STATE': both(rule('R-STATE/G1'), site('treeinput', 'misc', 'trees')),
                   'R-LINK': site('treeinput.', 'trees.Tree'),
                   'R-OPTKEY': site('treeinput.', 'trees.parse_label'),
                   'R-ENC': either(rule('R-ENC/GUNZIP'), site('treeinput.'))},
        'explanation': 'Decides, for the readers: the hand-written bracket lexer and 7-state reader conform to the '
                       'format automaton (total, reject every ill-formed group, same node/label/word/number/attach/'
                       'yield actions) exhaustively up to a nesting and length bound; per-sentence state is reset '
                       'after every yield and tokens are numbered from 1; every attach sets the parent pointer; '
                       'gf_split / gf_separator / replace_parens / continuous / quiet have the same code in every '
                       'format; option keys are literal, tested before use and forwarded; every reader gunzips; the TIGER root is '
                       'searched among all nodes. '
                       'Also: the export node-line test is exactly `#` + three digits; readers and gunzip keep no state between calls (what is read is the file as it is now); parse_label (used by gf_split) takes the decorations off from the right in the order head marker, co-index, gap index, each cut at the position tested. Does NOT decide: export field splitting, TIGER id-ref resolution, character decoding.',
    },
    'C02': {
        'rules': ['R-ESC', 'R-VOCAB', 'R-NONE', 'R-GUARD', 'DECOR', 'R-EXPNUM', 'R-LEVELS', 'R-TABS', 'R-ORDERED',
                  'R-OPTKEY', 'R-FRAME', 'R-STATE', 'R-DISCONT', 'R-NODELINE', 'R-LITERALS'],
        'filter': {'R-DISCONT': site('treeanalysis.gap_degree'),
                   'R-LITERALS': site('trees.BRACKETNAMES'),
                   'R-GUARD': rule('R-GUARD/BRACKETS'),
                   'R-FRAME': both(rule('R-FRAME/PURE'), site('treeanalysis.gap_degree', 'trees.')),
                   'R-STATE': both(rule('R-STATE/G6'), site('treeoutput.')),
                   'R-NODELINE': site('trees.replace_chars'),
                   'R-ORDERED': either(rule('R-ORDERED/DEF'), site('treeoutput.')),
                   'R-OPTKEY': site('treeoutput.', 'trees.get_label')},
        'explanation': 'Decides, for the writers: XML attribute values are escaped and tokens are paren-mapped before '
                       'they are written; the TIGER reader and writer agree on element/attribute names; optional '
                       'fields are defaulted before use; the bracket writer writes only under gap degree 0 and '
                       'raises/skips otherwise; each label decoration depends on its own option and all returns of '
                       'get_label carry all decorations in order; export numbers are a counter from 500 over ascending '
                       'levels, left to right, root 0; field separators are never empty. Also: gap degree purity and gap predicate (the bracket guard relies on them), writer purity, label written after paren mapping; the paren mapping applies every entry of its table. Does NOT decide: that an '
                       'independent decoder recovers the tree, tab-stop widths, terminals output text.',
    },
    'C03': {
        'rules': ['R-FRAMEFILE', 'R-DISPATCH', 'R-ENC', 'R-NONE', 'R-VOCAB', 'R-AUTOMATON', 'R-OPTKEY', 'R-READER-STATE', 'R-DIRMODE', 'R-OPENMODE', 'R-SIBLING', 'R-OPTSIDE', 'R-PERTREE', 'R-NODELINE', 'DECOR', 'R-TABS', 'R-LINK', 'R-ESC', 'R-ROOTSCAN', 'R-ORDERED', 'R-EXPNUM'],
        'filter': {'R-LINK': site('treeinput.'),
                   'R-ORDERED': both(rule('R-ORDERED/RAW'), site('treeoutput.')),
                   'R-PERTREE': site('transform.run'),
                   'R-OPTSIDE': site('transform.run'),
                   'R-OPENMODE': site('transform.'),
                   'R-SIBLING': rule('R-SIBLING/GFSPLIT', 'R-SIBLING/PARENS', 'R-SIBLING/SID'),
                   'R-AUTOMATON': rule('R-AUTOMATON/A4', 'R-AUTOMATON/A3', 'R-AUTOMATON/FIELDS', 'R-AUTOMATON/LEXER'),
                   'R-OPTKEY': rule('R-OPTKEY/K3', 'R-OPTKEY/K4')},
        'explanation': 'Decides, for `treetools transform`: every registry member exists with the arity its dispatch '
                       'site uses (4 readers x 5 writers total), both output branches frame every file with '
                       '<fmt>_begin/_end on every path, encodings reach every open and gzip is undone byte-exactly, '
                       'trees from field-poor formats can be written (None defaults), own reader/writer agree on XML '
                       'vocabulary and on the discobracket index convention, options are forwarded, reader state is reset per '
                       'sentence, directory mode converts every member, output is opened for writing. Also: readers get --src-opts and writers --dest-opts at every dispatch site; gf_split re-assembly agrees across readers; lexer actions; label decorations; per-tree steps do not depend on the sentence counter; export field separators are never empty; readers pair every attach with the parent pointer (writers follow both); what the TIGER-XML writer puts into attribute values is quoted. Does NOT decide: '
                       'losslessness of a round trip.',
    },
    'C04': {
        'rules': ['R-LINK', 'R-KEEP', 'R-ROOT', 'R-FRAME', 'R-STALE', 'R-ORDERED', 'R-FLAGS', 'R-HEADS', 'R-DISCONT', 'R-LEAFGUARD'],
        'filter': {'R-DISCONT': site('transform.boyd_split', 'trees.terminal_blocks'),
                   'R-LEAFGUARD': site('transform._uncollapse_unary_chains', 'transform._collapse_unary_chains'),
                   'R-LINK': site('transform.', 'trees.'),
                   'R-HEADS': rule('R-HEADS/MARK', 'R-HEADS/RANGE', 'R-HEADS/NEGRA'),
                   'R-ORDERED': both(rule('R-ORDERED/RAW'), site('transform.', 'trees.'))},
        'explanation': 'Decides, for every structural transformation: each attach is paired with the parent-pointer '
                       'update on every path and vice versa, each detach is followed by re-attachment or discard, '
                       'a detach cannot leave a childless constituent, every return hands back the root (typestate '
                       'dataflow with root-preservation summaries), only documented node fields are written and only '
                       'documented nodes move, parents are read in the moving iteration, stored child order is never '
                       'observed; the boyd_split flag protocol (one copy node per block, head block only through the head child). '
                       'Also: head positions are child indices and reach every constituent; the block predicate. Does NOT decide: acyclicity in general, label multiset equality.',
    },
    'C05': {
        'rules': ['R-LINK', 'R-FLAGS', 'R-DISCONT', 'R-FRAME', 'R-ORDERED', 'R-KEEP', 'R-HEADS', 'DECOR'],
        'filter': {'R-LINK': site('transform.boyd_split', 'transform.raising'),
                   'R-KEEP': site('transform.boyd_split', 'transform.raising'),
                   'R-DISCONT': site('transform.boyd_split', 'trees.terminal_blocks', 'treeanalysis.gap_degree_node'),
                   'R-FRAME': site('transform.boyd_split', 'transform.raising'),
                   'R-ORDERED': either(both(rule('R-ORDERED/RAW'), site('transform.', 'trees.')),
                                       both(rule('R-ORDERED/DEF'), site('trees.children', 'trees.terminals'))),
                   'R-HEADS': rule('R-HEADS/MARK', 'R-HEADS/RANGE', 'R-HEADS/NEGRA')},
        'explanation': 'Decides: link pairing at the split/raise sites; one copy node per block with split/head/'
                       'head_block/block_number set unconditionally; defaults on every visited node; the head-block '
                       'flag can only come from the head child (boolean normal form); the block test is the shared '
                       'gap predicate; raising discards exactly split, non-head-block, non-root nodes and iterates a '
                       'copy of the child list; head markers give one head per constituent at a valid index. Does NOT '
                       'decide: continuity of the result, maximality of the head run.',
    },
    'C06': {
        'rules': ['R-ACCUM', 'R-ARGPOS', 'R-DISCONT', 'R-ORDERED', 'R-MEMO', 'R-STATE', 'R-LEAFGUARD'],
        'filter': {'R-LEAFGUARD': site('treeanalysis.gap_degree_node', 'trees.terminal'),
                   'R-MEMO': site('grammar.', 'treeanalysis.', 'trees'),
                   'R-STATE': both(rule('R-STATE/G1'), site('grammar', 'treeanalysis', 'trees')),
                   'R-ACCUM': site('grammar.extract'),
                   'R-ARGPOS': site('grammar.extract'),
                   'R-ORDERED': either(rule('R-ORDERED/DEF'), site('grammar.'))},
        'explanation': 'Decides, for grammar extraction: one `+= 1` per constituent and one lexicon update per token, '
                       'entries created only when absent; argument positions numbered by emission; a new reference is '
                       'emitted iff the current argument is empty or ends in another child; one argument per block; '
                       'vertical context from dominance() with gap degree + 1; the context-freeness test inspects '
                       'every rule; ordered accessors used. Also: the head-block update as a 16-row truth table; markers reach unary constituents. Also: merge guard as a 4-row truth table; counting is unconditional; leaf shortcut of gap_degree_node only for nodes without children; is_contextfree as an exhaustively explored boolean program. Does NOT decide: that the linearization reproduces the blocks.',
    },
    'C07': {
        'rules': ['R-ARITY', 'R-ARGPOS', 'R-INVERSEMAP', 'R-MEMO', 'R-ACCUM', 'R-PAIRUSE'],
        'filter': {'R-MEMO': site('grammar', 'trees'),
                   'R-ACCUM': site('grammar.binarize'),
                   'R-ARGPOS': site('grammar.linsub')},
        'explanation': 'Decides only: binarized rule keys are triples, rank <= 2 rules are stored verbatim under the '
                       'rank test, every label handed out is new (counter incremented before each return), one '
                       'generator per binarize call; linsub numbers argument positions by emission; reordering permutes '
                       'right-hand sides with a map and renames variables with its inverse. Also: production and linearization handed to binarize_rule come from the same reordering call; entries of the result are created only when absent. Does NOT decide: the '
                       'linsub algebra, chain composition, fan-out agreement.',
    },
    'C08': {
        'rules': ['R-ACCUM', 'R-IDCOUNTER', 'R-STATE', 'R-ARITY', 'R-OPTKEY'],
        'filter': {'R-OPTKEY': both(rule('R-OPTKEY/K4', 'R-OPTKEY/K1'), site('grammaroutput.')),
                   'R-ARITY': rule('R-ARITY/CHAIN'),
                   'R-STATE': either(both(rule('R-STATE/G6', 'R-STATE/G5'), site('grammaroutput.')),
                                     both(rule('R-STATE/G1'), site('grammar')))},
        'explanation': 'Decides the clause "never only the last one seen": every store into a count slot accumulates '
                       '(+=, right-hand side reads the slot, or a local derived from it on every path), entries are '
                       'created only under `key not in table`, the count handed to the binarizer is the source rule\'s '
                       'own count, every writer prints the sum over contexts, task accumulators count each unit once. '
                       'Also: inside the loop over vertical contexts the count handed over is the context\'s own; zero-initialised counter tables are added to; a grammar writer never adds rules to the grammar object it is given (the counts of that object stay what extraction produced); each chain rule of a binarization rewrites the symbol introduced by the rule before it; no state shared between calls through default arguments. Does NOT decide: the numeric balance equation.',
    },
    'C09': {
        'rules': ['R-MUSTUSE', 'R-ENC', 'R-GUARD', 'R-ACCUM', 'R-IDCOUNTER', 'R-SORTEDPOS', 'R-OPTKEY', 'R-STATE', 'R-LOOPSTRIP', 'R-OPENMODE', 'R-DISCONT', 'R-OPTSIDE'],
        'filter': {'R-OPTSIDE': site('grammar.run'),
                   'R-OPENMODE': site('grammaroutput.', 'grammar.'),
                   'R-DISCONT': site('grammaranalysis.'),
                   'R-GUARD': rule('R-GUARD/LOPAR'),
                   'R-ACCUM': either(rule('R-ACCUM/PRINT'), site('grammarinput.', 'grammaroutput.')),
                   'R-ENC': site('grammarinput.', 'grammaroutput.', 'grammar.run'),
                   'R-OPTKEY': site('grammarinput.', 'grammaroutput.'),
                   'R-STATE': both(rule('R-STATE/G6', 'R-STATE/G5'), site('grammaroutput.'))},
        'explanation': 'Decides: the grammar command binds what the grammar reader returns; encodings reach every open '
                       'and the driver passes source/destination encoding to the right side; LoPar refuses non-context-'
                       'free grammars before opening files; printed counts are sums over contexts; PMCFG ids advance '
                       'once per labelled item; RCG argument positions are written in sorted order; lex_in_grammar is '
                       'tested literally and works on a copy. Also: option sides; is_contextfree itself; protective copies keep every linearization. Does NOT decide: textual round trip of RCG/PMCFG.',
    },
    'C10': {
        'rules': ['R-GUARD', 'R-ORDERED', 'R-STATE', 'R-FRAME', 'R-OPENMODE', 'R-ENC', 'R-LEAFGUARD', 'R-OPTSIDE', 'R-PERTREE'],
        'filter': {'R-PERTREE': site('transitions.run'),
                   'R-OPTSIDE': site('transitions.run'),
                   'R-LEAFGUARD': site('transitions.'),
                   'R-OPENMODE': site('transitions.', 'transitionoutput.'),
                   'R-ENC': site('transitions.', 'transitionoutput.'),
                   'R-GUARD': rule('R-GUARD/GAP', 'R-GUARD/TOPDOWN', 'R-GUARD/PLAIN', 'R-GUARD/SENTENCE'),
                   'R-ORDERED': either(rule('R-ORDERED/DEF'), site('transitions.')),
                   'R-STATE': both(rule('R-STATE/G1'), site('transitions', 'transitionoutput', 'trees')),
                   'R-FRAME': both(rule('R-FRAME/PURE'), site('transitions.'))},
        'explanation': 'Decides: the gap oracle emits UNARY through a closure loop and cannot stop before it ran; the '
                       'top-down oracle dispatches arity 0/1/2 exhaustively on the ordered children with the head side '
                       'from the first ordered child; oracles neither write the tree nor keep state between calls; '
                       'the pos option selects the POS component. Also: writer options come from --dest-opts, encodings reach the opens, `_inorder` returns early only for tokens. Does NOT decide: replay soundness.',
    },
    'C11': {
        'rules': ['R-ROOT', 'R-EDIT', 'R-LABELEDIT', 'R-STATE', 'R-FRAME', 'R-KEEP', 'R-LITERALS'],
        'filter': {'R-ROOT': site(*EDITORS),
                   'R-LITERALS': site('trees.'),
                   'R-KEEP': site('trees.delete_terminal'),
                   'R-LABELEDIT': site('transform.ptb_delete_traces'),
                   'R-STATE': either(rule('R-STATE/G3'), both(rule('R-STATE/G1'), site('trees', 'transform'))),
                   'R-FRAME': site(*EDITORS)},
        'explanation': 'Decides: editing transformations return the root; deletion/insertion shift exactly the tokens '
                       'right of / at the position by one; every effect of insert/substitute is dominated by '
                       '1 <= position <= n(+1); only punctuation is deleted and never all of it; the length filter '
                       'maps lt/gt/eq to </>/==; trace deletion strips gap indices unconditionally and co-indices unless '
                       'keepcoindex, on every constituent; the terminal-file cache is only written while loading. '
                       'Also: insertions are processed in ascending order; the co-index is kept under keepcoindex only; option strings are split before membership tests; renumbering runs once per deleted token. Does NOT decide: which tokens are traces (string semantics).',
    },
    'C12': {
        'rules': ['R-FRAME', 'R-LINK', 'R-EDGE', 'R-KEEP', 'R-ORDERED', 'R-STATE', 'R-MEMO'],
        'filter': {'R-STATE': both(rule('R-STATE/G1', 'R-STATE/G2'), site('transform', 'trees')),
                   'R-FRAME': site('transform.root_attach'),
                   'R-LINK': site('transform.root_attach'),
                   'R-KEEP': site('transform.root_attach'),
                   'R-ORDERED': either(rule('R-ORDERED/DEF'), site('trees.', 'transform.root_attach'))},
        'explanation': 'Decides the frame of root_attach: no node field written, only loop variables over the ordered '
                       'root children move, links paired, the move is dominated by the exact test "left neighbour >= '
                       'first token and right neighbour <= last token", the sibling-skipping loop recomputes both '
                       'spans per iteration, right_sibling uses the ordered children. Also: the two tests of the sibling scan in integer-linear normal form (skip: starts before the end of the focus; stop: at least two positions after it); spans are fresh when compared; no result remembered between calls (mutable defaults, node ids as keys). Does NOT decide: equality with '
                       'the set-based reference.',
    },
    'C13': {
        'rules': ['R-FRAME', 'R-LINK', 'R-KEEP', 'R-PUNCTSEL', 'R-STALE', 'R-SYMTARGET', 'R-LITERALS', 'R-STATE', 'R-ORDERED', 'R-MEMO'],
        'filter': {'R-STATE': both(rule('R-STATE/G1', 'R-STATE/G7'), site('transform', 'trees')),
                   'R-LITERALS': site('trees.'),
                   'R-ORDERED': both(rule('R-ORDERED/RAW'), site(*PUNCT)),
                   'R-MEMO': site('transform.punctuation', 'trees.'),
                   'R-FRAME': site(*PUNCT), 'R-LINK': site(*PUNCT), 'R-KEEP': site(*PUNCT), 'R-STALE': site(*PUNCT)},
        'explanation': 'Decides: only tokens filtered by trees.PUNCT / PAIRPUNCT are moved; the moved set is '
                       'restricted by the documented conditions only; links are paired; no constituent is emptied '
                       '(guard at move time); targets are read from .parent in the moving iteration. Also: the candidate loops are never left early; position bound; guard inventory covers the moved inventory; the anchor selections with and without relc use the same inventory; no list shared between calls, no move in set order. Does NOT decide: '
                       'that the new parent is the documented one.',
    },
    'C14': {
        'rules': ['R-ROOT', 'R-LABELEDIT', 'R-GUARD', 'R-LINK', 'R-FLAGS', 'R-RECURSE', 'R-ORDERED', 'R-STATE', 'R-MEMO', 'R-LEAFGUARD', 'R-STALE'],
        'filter': {'R-LEAFGUARD': site('transform.'),
                   'R-STALE': site('transform._binarize', 'transform.binarize', 'transform._collapse', 'transform.collapse',
                                   'transform._uncollapse', 'transform.uncollapse'),
                   'R-RECURSE': site('transform.'),
                   'R-STATE': both(rule('R-STATE/G1'), site('transform')),
                   'R-MEMO': site('transform'),
                   'R-ORDERED': both(rule('R-ORDERED/RAW'), site('transform.')),
                   'R-ROOT': site('transform.binarize', 'transform.collapse_unary_chains', 'transform.uncollapse_unary_chains'),
                   'R-LABELEDIT': site('transform._binarize_tree'),
                   'R-GUARD': rule('R-GUARD/BINARIZE'),
                   'R-LINK': site('transform._binarize_tree', 'transform._collapse_unary_chains',
                                  'transform._uncollapse_unary_chains'),
                   'R-FLAGS': rule('R-FLAGS/BIN')},
        'explanation': 'Decides: uncollapse/binarize/collapse return the root; added nodes are labelled "@" + parent '
                       'category with the co-index blanked (bare on request) and marked head; the head mark is read only '
                       'after its presence check; children emptied from a node are snapshotted and re-attached with '
                       'parent pointers. Also: walkers return early only for nodes without children; dead presence checks; labels are rebuilt from their current content. Does NOT decide: reversibility.',
    },
    'C15': {
        'rules': ['R-HEADS', 'R-STATE', 'R-ORDERED', 'R-LITERALS', 'R-MEMO', 'R-LABELSPLIT'],
        'filter': {'R-LITERALS': site('transformconst.'),
                   'R-MEMO': site('transformconst', 'transform', 'trees'),
                   'R-STATE': both(rule('R-STATE/G1'), site('transformconst', 'transform.negra_mark_heads',
                                                            'transform.mark_heads_by_rules', 'trees')),
                   'R-ORDERED': both(rule('R-ORDERED/RAW'), site('transform.negra_mark_heads',
                                                                 'transform.mark_heads_by_rules', 'transformconst.'))},
        'explanation': 'Decides: the category list of a head rule is only measured or split (never iterated by '
                       'character); every loop can reach its next iteration and both directions have the same exits; '
                       'returned positions are child indices; categories compared lower-case and undecorated; both '
                       'markers give exactly one True per constituent and False to the root; NeGra index definitions '
                       'and guards; presets and rejections; no state between calls. Also: how parse_label takes the decorations off (each cut at the position that was tested, head marker first), since the rules compare undecorated categories; the head index is chosen per constituent. What remains is table content.',
    },
    'C16': {
        'rules': ['R-DISCONT', 'R-ACCUM', 'R-FRAME', 'R-DISCOORDER', 'R-GUARD', 'R-ORDERED', 'R-REPORT', 'R-STATE', 'R-MEMO', 'R-LEAFGUARD', 'R-OPTSIDE', 'R-PERTREE'],
        'filter': {'R-PERTREE': site('treeanalysis.run'),
                   'R-OPTSIDE': site('treeanalysis.run'),
                   'R-LEAFGUARD': site('treeanalysis.', 'trees.terminal'),
                   'R-STATE': both(rule('R-STATE/G1'), site('treeanalysis', 'trees')),
                   'R-MEMO': site('treeanalysis', 'trees'),
                   'R-ACCUM': site('treeanalysis.'),
                   'R-FRAME': both(rule('R-FRAME/PURE'), site('treeanalysis.', 'trees.')),
                   'R-GUARD': rule('R-GUARD/BRACKETS', 'R-GUARD/LOPAR'),
                   'R-ORDERED': either(rule('R-ORDERED/DEF'), site('treeanalysis.'))},
        'explanation': 'Decides: the four gap tests are one predicate a + 1 < b; gap_degree is the max over all nodes; '
                       'fan-out[0] = number of arguments; context-free iff no linearization has > 1 argument, tested on '
                       'every rule; the bracket writer guards on gap degree; tasks count each tree/constituent/token '
                       'once and keep only accumulated state; analysis functions write nothing; disco_order returns a '
                       'node as such only for tokens. Also: marking reaches unary constituents; dead rejections; undecorated parent label. Also: gap predicate in normal form at every site, counter incremented, running maximum; per-tree steps unconditional. Does NOT decide: numeric equality with the set-based definition.',
    },
    'C17': {
        'rules': ['R-SPLITARITH', 'R-FRAMEFILE', 'R-ENC', 'R-OPENMODE', 'R-OPTSIDE'],
        'filter': {'R-OPTSIDE': site('transform.run'),
                   'R-ENC': site('transform.run'), 'R-OPENMODE': site('transform.')},
        'explanation': 'Decides: every part size is an exact non-negative integer in an abstract domain '
                       '{NonNegInt, Int, InexactInt, Float, Str} (floating-point percentages and unvalidated signs are '
                       'rejected), the remainder goes to rest or to parts.index(max(parts)), bad specifications raise '
                       'ValueError; the specification is evaluated against the list actually written, one shared '
                       'iterator hands out each tree once in order, each part file is framed on every path. '
                       'Also: option sides; sign check inside the part loop; index-or-None tests. Does NOT decide: the sum arithmetic itself.',
    },
    'C18': {
        'rules': ['R-STATE', 'R-READER-STATE', 'R-ARITY', 'R-FRAME', 'R-ACCUM', 'R-MEMO', 'R-FRAMEFILE', 'R-PERTREE', 'R-SORTEDPOS', 'R-OPENMODE'],
        'filter': {'R-SORTEDPOS': (lambda o: str(getattr(o, 'construct', '') or '').startswith('clausectr')),
                   'R-PERTREE': site('transform.run', 'grammar.run', 'transitions.run', 'treeanalysis.run'),
                   'R-ACCUM': either(rule('R-ACCUM/TASK', 'R-ACCUM/EXTRACT'), site('grammar.extract', 'grammar.binarize')),
                   'R-FRAMEFILE': rule('R-FRAMEFILE/ONCE'),
                   'R-ARITY': rule('R-ARITY/UNIQUE'), 'R-FRAME': rule('R-FRAME/PURE')},
        'explanation': 'Decides: the inventory of state outliving a call is exactly the two terminal-file caches (no '
                       'global, no mutable default, no module/class-level write); node ids are read only in Tree; '
                       'caches are written only while loading and dropped completely; writers leave node content and '
                       'the caller\'s grammar as found (None-defaulting, #NNN on constituents, save/restore excepted); no '
                       'output loop over a set except the .start file; readers reset per-sentence state after each '
                       'yield; label generators are per call. Also: accumulation in extract / binarize; per-tree steps; dropped trees never reach a writer; no transformation moves nodes in the order of a set of nodes (node ids); how a grammar writer renders one clause does not depend on the clauses written before it (per-clause counters). Does NOT decide: additivity as an equation.',
    },
    'C19': {
        'rules': ['R-ORDERED', 'R-LEVELS', 'R-EXPNUM', 'R-NAV', 'R-LEAFGUARD', 'R-FRAME', 'R-STATE', 'R-MEMO'],
        'filter': {'R-FRAME': both(rule('R-FRAME/PURE'), site('trees.')),
                   'R-STATE': both(rule('R-STATE/G1'), site('trees')),
                   'R-MEMO': site('trees'),
                   'R-LEAFGUARD': site('trees.'),
                   'R-ORDERED': either(rule('R-ORDERED/DEF'), site('trees.', 'treeoutput.compute_export_numbering'))},
        'explanation': 'Decides only: children() sorts by leftmost token, terminals() by number; preorder/postorder yield '
                       'the node once before/after recursing over the ordered children; siblings use the ordered list; '
                       'levels are recorded for constituents only and aggregated with max; export numbers are a counter '
                       'from 500 over ascending levels, left to right; right/left sibling return the element at offset '
                       '+1/-1 (slice start and index arithmetic); dominance() yields the node and then every parent. '
                       'Also: both level tables are filled together; dominance() yields the node first; no attribute caches on nodes; early returns only for nodes without children. Does NOT decide: the least common ancestor, the level arithmetic.',
    },
    'C20': {
        'rules': ['DECOR', 'R-OPTKEY', 'R-LABELFIELDS', 'R-LABELSPLIT', 'R-STATE', 'R-MEMO', 'R-FRAME'],
        'filter': {'R-FRAME': both(rule('R-FRAME/PURE'), site('trees.format_label', 'trees.parse_label', 'trees.get_label')),
                   'R-STATE': both(rule('R-STATE/G1'), site('trees')),
                   'R-MEMO': site('trees'),
                   'R-OPTKEY': site('trees.')},
        'explanation': 'Decides: every rebinding of the label in parse_label is a prefix slice whose remainder was '
                       'recorded (one separator character dropped), indices are split at the last separator and only '
                       'if numeric, the trace test; format_label reads each component parse_label stores, glues the '
                       'function with the recorded separator, suppresses the two default literals unless asked; option '
                       'keys are literal; output decorations follow their options. Also: gap index and co-index are both kept; the default switches are the documented options; placeholder test against the literal \'-\'; formatting and parsing leave the label object / node they are given unchanged; the default category is applied after the last component is stripped. Does NOT decide: the inverse property '
                       'over all strings.',
    },
}

# generic misuse patterns (ttsa/rules/generic_rules.py) are looked for in the functions each property is anchored in
GENERIC = ['R-SUBSTR', 'R-DEADCHECK', 'R-FALSYZERO', 'R-DICTCOMP', 'R-STALEACC', 'R-ZEROTABLE', 'R-LEAKVAR', 'R-STRSORT', 'R-FMTDATA', 'R-COUNTERUNION', 'R-INSTR', 'R-ORDEFAULT', 'R-KEYCOPY', 'R-SHAREDMUT', 'R-SHAREDTABLE', 'R-ONESHOT', 'R-LOOPRESET', 'R-WRONGCHECK', 'R-STALESNAP', 'R-INDEXBYVALUE', 'R-COUNTERSTR', 'R-MAXSTEP']
PROP_SITES = {
    'C01': ('treeinput.', 'trees.parse_label', 'misc.'),
    'C02': ('treeoutput.', 'trees.get_label', 'treeanalysis.gap'),
    'C03': ('transform.run', 'treeinput.', 'treeoutput.', 'misc.'),
    'C04': ('transform.', 'trees.'),
    'C05': ('transform.boyd_split', 'transform.raising', 'transform.negra_mark_heads', 'transform.mark_heads_by_rules',
            'transformconst.'),
    'C06': ('grammar.extract', 'treeanalysis.', 'grammaranalysis.', 'trees.terminal'),
    'C07': ('grammar.',),
    'C08': ('grammar.', 'grammaroutput.'),
    'C09': ('grammaroutput.', 'grammarinput.', 'grammaranalysis.', 'grammar.run', 'grammarconst.'),
    'C10': ('transitions.', 'transitionoutput.'),
    'C11': EDITORS,
    'C12': ('transform.root_attach', 'trees.'),
    'C13': PUNCT,
    'C14': ('transform.binarize', 'transform._binarize', 'transform.collapse', 'transform._collapse',
            'transform.uncollapse', 'transform._uncollapse'),
    'C15': ('transform.negra_mark_heads', 'transform.mark_heads_by_rules', 'transformconst.'),
    'C16': ('treeanalysis.', 'grammaranalysis.', 'trees.terminal_blocks'),
    'C17': ('treeoutput.parse_split_specification', 'transform.run', 'misc.'),
    'C18': ('',),
    'C19': ('trees.', 'treeoutput.compute_export_numbering'),
    'C20': ('trees.',),
}
for _pid, _p in PROPS.items():
    _p.setdefault('filter', {})
    for _g in GENERIC:
        _p['rules'].append(_g)
        _p['filter'][_g] = either(site('package'), site(*PROP_SITES[_pid]))

for _p in PROPS.values():
    _p.setdefault('filter', {})
    _p['assumptions'] = list(COMMON_ASSUMPTIONS)

# minimum number of obligations per (property, rule): half of what was confirmed by hand on the tree the checker
# was built for (rules additionally check their own anchors); a lower count with no violation means an anchor
# vanished (exit 2).  Lint-like rules whose expected count is zero have floor 0 and are exercised by fixtures.
import json as _json
import os as _os
FLOORS = {}
_fp = _os.path.join(_os.path.dirname(_os.path.abspath(__file__)), 'floors.json')
if _os.path.exists(_fp):
    with open(_fp) as _fh:
        FLOORS = _json.load(_fh)
