"""Mapping property -> rules, with the explanation that goes into the evidence."""
from .rules import tree_rules, order_rules, opt_rules

RULES = {
    'R-LINK': tree_rules.r_link,
    'R-KEEP': tree_rules.r_keep,
    'R-ROOT': tree_rules.r_root,
    'R-FRAME': tree_rules.r_frame,
    'R-STALE': tree_rules.r_stale,
    'R-PUNCTSEL': tree_rules.r_punctsel,
    'R-ORDERED': order_rules.r_ordered,
    'R-LEVELS': order_rules.r_levels,
    'R-EXPNUM': order_rules.r_expnum,
    'R-OPTKEY': opt_rules.r_optkey,
    'DECOR': opt_rules.r_decor,
    'R-SIBLING': opt_rules.r_sibling,
}

# minimum number of instances per rule, confirmed by hand on the tree the checker was built for
FLOORS = {}

PROPS = {}
