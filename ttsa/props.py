"""Mapping property -> rules, with the explanation that goes into the evidence."""
from .rules import tree_rules, order_rules, opt_rules, gram_rules, driver_rules, writer_rules, edit_rules, head_rules

RULES = {
    'R-LINK': tree_rules.r_link,
    'R-KEEP': tree_rules.r_keep,
    'R-ROOT': tree_rules.r_root,
    'R-FRAME': tree_rules.r_frame,
    'R-STALE': tree_rules.r_stale,
    'R-PUNCTSEL': tree_rules.r_punctsel,
    'R-ORDERED': order_rules.r_ordered,
    'R-LEVELS': order_rules.r_levels,
    'R-EXPNUM': order_rules.r_expnum,
    'R-OPTKEY': opt_rules.r_optkey,
    'DECOR': opt_rules.r_decor,
    'R-SIBLING': opt_rules.r_sibling,
    'R-ACCUM': gram_rules.r_accum,
    'R-ARITY': gram_rules.r_arity,
    'R-ARGPOS': gram_rules.r_argpos,
    'R-INVERSEMAP': gram_rules.r_inversemap,
    'R-MUSTUSE': gram_rules.r_mustuse,
    'R-ENC': gram_rules.r_enc,
    'R-IDCOUNTER': gram_rules.r_idcounter,
    'R-SORTEDPOS': gram_rules.r_sortedpos,
    'R-DISCONT': gram_rules.r_discont,
    'R-FRAMEFILE': driver_rules.r_framefile,
    'R-DISPATCH': driver_rules.r_dispatch,
    'R-SPLITARITH': driver_rules.r_splitarith,
    'R-STATE': driver_rules.r_state,
    'R-NONE': writer_rules.r_none,
    'R-ESC': writer_rules.r_esc,
    'R-VOCAB': writer_rules.r_vocab,
    'R-TABS': writer_rules.r_tabs,
    'R-GUARD': writer_rules.r_guard,
    'R-EDIT': edit_rules.r_edit,
    'R-LABELEDIT': edit_rules.r_labeledit,
    'R-LABELFIELDS': edit_rules.r_labelfields,
    'R-LABELSPLIT': edit_rules.r_labelsplit,
    'R-DISCOORDER': edit_rules.r_discoorder,
    'R-EDGE': edit_rules.r_edge,
    'R-HEADS': head_rules.r_heads,
    'R-FLAGS': head_rules.r_flags,
}

# minimum number of instances per rule, confirmed by hand on the tree the checker was built for
FLOORS = {}

PROPS = {}
