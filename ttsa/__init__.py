"""ttsa - treetools static analysis.  Stdlib only; parses /repo, never imports or runs it."""
