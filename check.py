#!/venv/bin/python
"""check.py <Cid> [--tier quick|thorough]   |   check.py --replay <file>   |   check.py --all

Static analysis of /repo's current working tree (override with TTSA_REPO for self-tests).
exit 0: every obligation discharged (or listed as known finding); exit 1: VIOLATION lines printed;
exit 2: ANALYSIS-ERROR (an anchor vanished or a construct is not modelled) - never a silent pass.
"""
import json
import os
import sys
import time
import traceback

sys.path.insert(0, os.path.dirname(os.path.abspath(__file__)))

from ttsa.core import Program, AnalysisError, Unrecognised  # noqa: E402
from ttsa.report import Ob  # noqa: E402
from ttsa import props  # noqa: E402
from ttsa.report import finish  # noqa: E402


def evaluate(pid, tier, prog, cache):
    """(obligations, counts, rules run) of property pid on program prog; raises AnalysisError."""
    spec = props.PROPS[pid]
    obs = []
    counts = {}
    rules_run = []
    errors = []
    for rname in spec['rules']:
        fn = props.RULES[rname]
        key = (rname, tier)
        if key not in cache:
            try:
                cache[key] = fn(prog, tier)
            except Unrecognised as e:
                # the anchor exists but has a shape the rule does not model: no verdict from this rule
                cache[key] = (list(getattr(e, 'partial', ())) +
                              [Ob(rname, 'trees', 'rule %s can analyse its anchor' % rname, None, str(e),
                                  construct='unrecognised:' + rname)], {})
            except AnalysisError as e:
                cache[key] = e
            except Exception as e:      # a rule met a construct it was not written for and fell over: no verdict from it
                import traceback
                tb = traceback.extract_tb(e.__traceback__)[-1]
                cache[key] = ([Ob(rname, 'trees', 'rule %s can analyse its anchor' % rname, None,
                                  'internal error %s: %s (%s:%d) - the rule gives no verdict on this source'
                                  % (type(e).__name__, e, tb.filename.split('/')[-1], tb.lineno),
                                  construct='internal-error:' + rname)], {'internal_errors': [rname]})
        if isinstance(cache[key], AnalysisError):
            # the rule lost an anchor: the other rules of the property still run; the run cannot pass
            errors.append('%s: %s' % (rname, cache[key]))
            continue
        o, c = cache[key]
        flt = spec.get('filter', {}).get(rname)
        if flt:
            o = [x for x in o if flt(x)]
        floor = props.FLOORS.get('%s/%s' % (pid, rname), 1)
        if len(o) == 0 and floor > 0:
            # every instance this rule had on the tree it was built for is gone: it no longer decides anything
            o = [Ob(rname, 'trees', 'rule %s still finds the constructs it was written for' % rname, None,
                    'no instance found for %s (at least %d when the checker was built)' % (pid, floor),
                    construct='vanished:' + rname)]
        obs.extend(o)
        for k, v in c.items():
            if k == 'internal_errors':
                counts.setdefault(k, []).extend(v)
            else:
                counts[k] = v
        rules_run.append(rname)
    return obs, counts, rules_run, errors


def run_property(pid, tier, prog=None, cache=None):
    t0 = time.time()
    if pid not in props.PROPS:
        print('ANALYSIS-ERROR unknown property %s' % pid)
        return 2
    spec = props.PROPS[pid]
    prog = prog or Program()
    cache = cache if cache is not None else {}
    obs, counts, rules_run, errors = evaluate(pid, tier, prog, cache)
    counts = dict(counts)
    if errors:
        counts['analysis_errors'] = errors
    if tier == 'thorough' and not os.environ.get('TTSA_NO_SELFVALIDATION'):
        # informational: how the check of this property reacts to known breaking / preserving changes
        try:
            from selftest import validate
            counts.update(validate.validate(pid))
        except Exception as e:      # the self-validation must never decide the verdict
            counts['selfvalidation'] = {'error': repr(e)}
    rc = finish(pid, tier, obs, t0, rules_run, prog, spec['explanation'], assumptions=spec['assumptions'],
                counts=counts)
    for e in errors:
        print('ANALYSIS-ERROR %s %s' % (pid, e))
    if errors and rc == 0:
        return 2
    return rc


def replay(path):
    with open(path) as f:
        rec = json.load(f)
    pid = rec['property']
    spec = props.PROPS[pid]
    prog = Program()
    for rname in spec['rules']:
        o, _ = props.RULES[rname](prog, 'quick')
        for x in o:
            if x.key == rec['key']:
                print('%s %s:%d %s -> %s (%s)' % (x.rule, x.site, x.line, x.what,
                                                 'discharged' if x.ok else 'VIOLATED', x.detail))
                if not x.ok:
                    print('VIOLATION property=%s replay=%s' % (pid, path))
                    return 1
                return 0
    print('obligation %s no longer exists in the current source' % rec['key'])
    return 0


def main(argv):
    tier = os.environ.get('VERIF_TIER', 'quick')
    args = list(argv)
    if '--tier' in args:
        i = args.index('--tier')
        tier = args[i + 1]
        del args[i:i + 2]
    if tier not in ('quick', 'thorough'):
        tier = 'quick'
    try:
        if args and args[0] == '--replay':
            return replay(args[1])
        if args and args[0] == '--all':
            prog = Program()
            cache = {}
            worst = 0
            for pid in sorted(props.PROPS):
                try:
                    rc = run_property(pid, tier, prog, cache)
                except AnalysisError as e:
                    print('ANALYSIS-ERROR %s: %s' % (pid, e))
                    rc = 2
                worst = max(worst, rc)
            return worst
        if args and args[0] == '--write-floors':
            # developer command: freeze half of today's instance counts (never run by a registered check)
            prog = Program()
            cache = {}
            floors = {}
            for pid in sorted(props.PROPS):
                spec = props.PROPS[pid]
                for rname in spec['rules']:
                    key = (rname, 'quick')
                    if key not in cache:
                        cache[key] = props.RULES[rname](prog, 'quick')
                    o = cache[key][0]
                    flt = spec.get('filter', {}).get(rname)
                    if flt:
                        o = [x for x in o if flt(x)]
                    floors['%s/%s' % (pid, rname)] = len(o) // 2
            with open(os.path.join(os.path.dirname(os.path.abspath(__file__)), 'ttsa', 'floors.json'), 'w') as fh:
                json.dump(floors, fh, indent=1, sort_keys=True)
            print('wrote %d floors' % len(floors))
            # where every top-level definition lives on the tree the checker was built for: a definition that later moves
            # to another module and leaves its name behind as an alias is still found at its home (ttsa/core.py)
            import ast as _ast
            homes = {}
            from ttsa.core import MODULES, PKG, REPO
            for mn in MODULES:
                with open(os.path.join(os.environ.get('TTSA_REPO', REPO), PKG, mn + '.py'), encoding='utf-8') as fh:
                    import warnings
                    with warnings.catch_warnings():
                        warnings.simplefilter('ignore')
                        t = _ast.parse(fh.read())
                for st in t.body:
                    names = []
                    if isinstance(st, (_ast.FunctionDef, _ast.ClassDef)):
                        names = [st.name]
                    elif isinstance(st, _ast.Assign):
                        names = [x.id for tg in st.targets for x in _ast.walk(tg) if isinstance(x, _ast.Name)]
                    elif isinstance(st, _ast.AnnAssign) and isinstance(st.target, _ast.Name):
                        names = [st.target.id]
                    for nm in names:
                        homes.setdefault(nm, [])
                        if mn not in homes[nm]:
                            homes[nm].append(mn)
            with open(os.path.join(os.path.dirname(os.path.abspath(__file__)), 'ttsa', 'homes.json'), 'w') as fh:
                json.dump(homes, fh, indent=1, sort_keys=True)
            print('wrote the homes of %d top-level names' % len(homes))
            return 0
        if not args:
            print(__doc__)
            return 2
        return run_property(args[0], tier)
    except AnalysisError as e:
        print('ANALYSIS-ERROR %s' % e)
        return 2
    except Exception:
        traceback.print_exc()
        print('ANALYSIS-ERROR internal error in the checker (see traceback)')
        return 2


if __name__ == '__main__':
    sys.exit(main(sys.argv[1:]))
