#!/venv/bin/python
"""dev helper: run rules and print a summary (not registered in the manifest)"""
import sys, os
sys.path.insert(0, os.path.dirname(os.path.abspath(__file__)))
from ttsa.core import Program
from ttsa import props
P = Program()
names = sys.argv[1:] or sorted(props.RULES)
verbose = os.environ.get('V')
for r in names:
    obs, c = props.RULES[r](P, os.environ.get('TIER','quick'))
    bad = [o for o in obs if not o.ok]
    print('%-14s obligations=%d violated=%d %s' % (r, len(obs), len(bad), c))
    for o in (obs if verbose else bad):
        print('   %s %s %s:%d %s\n        -> %s' % ('ok ' if o.ok else 'BAD', o.rule, o.site, o.line, o.what, o.detail))
