#!/venv/bin/python
"""Regenerate /verif/MANIFEST.json from ttsa/props.py (developer tool)."""
import json, os, subprocess, sys
ROOT = os.path.dirname(os.path.dirname(os.path.abspath(__file__)))
sys.path.insert(0, ROOT)
from ttsa import props

TECH = {
 'C01': 'AST-extracted state machine vs format automaton (table totality + product exploration); post-yield reset dataflow; attach/parent pairing on the CFG; sibling comparison of option code',
 'C02': 'sink/sanitiser check (quoteattr), None-default dominance, guard dominance on the CFG, decoration/option control dependence, counter shape analysis',
 'C03': 'dispatch table / arity conformance, must-pass-through framing on the CFG, encoding dataflow to every open, reader/writer vocabulary agreement',
 'C04': 'link-event pairing with dominators/post-dominators, typestate dataflow (ROOT/NODE/FRESH) with call summaries, transitive effect (write-set) analysis',
 'C05': 'link-event pairing, flag producer/consumer protocol, boolean normal form of the head-block update, sibling predicate comparison',
 'C06': 'accumulation typestate of count slots, emission/counter adjacency, guard normal forms, must-pass-through in the context-freeness test',
 'C07': 'key-shape analysis of stored rules, counter-before-return dominance, emission/counter adjacency in linsub, inverse-map construction check, cache-key check',
 'C08': 'accumulation typestate of every count-slot store, absence-guard dominance for entry creation, reaching definitions of the handed-over count',
 'C09': 'must-use of reader results, encoding dataflow, guard dominance, loop-level analysis of id counters, sorted-iteration check on position dictionaries',
 'C10': 'must-pass-through (closure loop before break) on the CFG, exhaustive arity dispatch, effect analysis (oracles are pure), global-state lint',
 'C11': 'typestate of returned root, bound facts (1 <= i <= n) dominating every effect, comparison normal forms for the shifts, must-pass-through of index stripping',
 'C12': 'frame/effect analysis, link pairing, exact comparison normal form of the edge test, per-iteration recomputation in the skipping loop',
 'C13': 'filtered-source analysis of moved nodes, link pairing, move-time guard dominance, stale .parent read detection, token-level literal check of the inventories',
 'C14': 'typestate of returned root, parse/edit/format def-use chain of the @ label, guard dominance, snapshot/re-attach analysis, recursion-parameter check',
 'C15': 'representation typing of rule tables (list only split or measured), loop back-edge reachability, sibling branch comparison, index-range of returns, fused-literal check',
 'C16': 'sibling predicate normal forms, chain of definitional facts, accumulator once-per-unit analysis, purity (effect) analysis, leaf-guard dominance in disco_order',
 'C17': 'abstract interpretation over {NonNegInt, Int, InexactInt, Float, Str}, remainder-rule form check, iterator once-per-slot and framing must-pass-through',
 'C18': 'inventory of writes to non-local state, cache typestate, writer purity (effect) analysis with save/restore recognition, post-yield reset dataflow',
 'C19': 'definitional shape check of the ordered accessors and traversals, raw child-list use lint, counter/level-order analysis, sibling offset arithmetic',
 'C20': 'prefix-slice/remainder pairing in parse_label, field producer/consumer agreement parse_label/format_label, option control dependence in get_label',
}


def main():
    log = subprocess.run(['git', '-C', '/repo', 'log', '--format=%h %s'], capture_output=True, text=True).stdout.splitlines()
    nfix = sum(1 for l in log if l.split(' ', 1)[1].startswith('fix:'))
    checks = []
    for pid in sorted(props.PROPS):
        spec = props.PROPS[pid]
        decides, _, notd = spec['explanation'].partition('Does NOT decide')
        checks.append({
            'property_id': pid,
            'quick_cmd': '/venv/bin/python check.py %s --tier quick' % pid,
            'thorough_cmd': '/venv/bin/python check.py %s --tier thorough' % pid,
            'evidence_file': '/verif/evidence/%s.json' % pid,
            'replay_cmd_template': '/venv/bin/python check.py --replay {path}',
            'engine': 'ttsa',
            'level_claimed': {
                'category': 'other',
                'text': 'Static analysis of the current source of /repo (rules %s). %s It is a partial decision: structural '
                        'necessary conditions of the property on every path of the analysed functions, not the behaviour '
                        'itself.%s' % (', '.join(spec['rules']), decides.strip(), (' Not decided' + notd) if notd else ''),
                'design_ref': 'DESIGN.md sections 3 and 4 (%s), 6 for what it catches' % pid},
            'level_note': 'Trusted base: Python ast/tokenize of the repository interpreter (/venv/bin/python 3.12), the facts '
                          'F1-F6 of DESIGN.md section 1, the tables named in the rule modules. Nothing from /repo is imported '
                          'or executed. A rule reports a violation only on positive evidence of a defect pattern; a construct '
                          'in a shape no rule recognises is reported as UNDECIDED (no verdict, exit status unchanged) and '
                          'counted in the evidence; a missing module/function/registry ends the run with ANALYSIS-ERROR '
                          '(exit 2).',
            'technique': TECH[pid],
        })
    man = {
        'version': 1,
        'setup_cmd': '/venv/bin/python -c "import ast, json, hashlib, tokenize"',
        'hooks': {'guard': 'TREETOOLS_VERIF',
                  'enable': 'none: the checks parse /repo\'s source text, no hook is compiled into wmaier/treetools',
                  'baseline_off_cmd': 'cd /repo && /venv/bin/python -m pytest -ra -q -p no:cacheprovider --timeout=900 '
                                      '--continue-on-collection-errors',
                  'source_commits': [], 'add_only': True},
        'engines': [{'name': 'ttsa', 'path': '/verif/ttsa', 'serves_properties': sorted(props.PROPS),
                     'kind_free_text': 'repository-specific static analyser on Python ast: statement CFG with branch-assumption '
                                       'nodes, dominators/post-dominators, reaching definitions, access-path value numbering, '
                                       'link/data event extraction with helper inlining, typestate dataflow, abstract '
                                       'interpretation, guarded value cases, truth tables and integer-linear normal forms of '
                                       'guards, boolean-program exploration of search loops, AST-extracted automaton vs '
                                       'reference automaton, canonicalising pre-pass; %d rule families, '
                                       'three-valued obligations' % len(props.RULES)}],
        'checks': checks,
        'notes': 'All checks are static (family: static analysis). /repo carries %d unguarded `fix:` commits repairing genuine '
                 'defects the rules reported (listed as `fixed:` in /verif/KNOWN_FINDINGS.txt); no hook commits. seeded/ holds '
                 '%d independently written, individually confirmed changes (breaking and behaviour-preserving) with demos; '
                 'selftest/ holds the checker\'s own mutation and rewrite tests (informational, used by the thorough tier). '
                 'Before the rules run, every module is brought to a canonical form by semantics-preserving rewrites '
                 '(ttsa/normalise.py, DESIGN.md section 2).' % (nfix, len([d for d in os.listdir(os.path.join(ROOT, 'seeded'))
                                                                           if d.startswith('C')])),
        'not_applicable': [],
    }
    json.dump(man, open(os.path.join(ROOT, 'MANIFEST.json'), 'w'), indent=1)
    print('wrote MANIFEST.json with %d checks, %d fix commits' % (len(checks), nfix))


if __name__ == '__main__':
    main()
