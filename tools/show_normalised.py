#!/venv/bin/python
"""Show what ttsa.normalise rewrites in the current tree (unified diff of ast.unparse before/after)."""
import ast, difflib, os, sys, warnings
sys.path.insert(0, os.path.dirname(os.path.dirname(os.path.abspath(__file__))))
from ttsa.core import Program
os.environ.pop('TTSA_NO_NORMALISE', None)
P = Program(repo=os.environ.get('TTSA_REPO', '/repo'))
for name, m in P.modules.items():
    with warnings.catch_warnings():
        warnings.simplefilter('ignore')
        a = ast.unparse(ast.parse(m.src)).splitlines()
    b = ast.unparse(m.tree).splitlines()
    d = list(difflib.unified_diff(a, b, name, name + ' (normalised)', lineterm='', n=1))
    if d:
        print('\n'.join(d))
