"""Self-validation of one property's check (thorough tier, informational: never changes the verdict).

For property P: every seeded change written for P (/verif/seeded/P-*), the reverse of every `fix:` commit
recorded for P in KNOWN_FINDINGS.txt, and the six behaviour-preserving rewrites are applied to scratch copies
of /repo's *current* tree (mkdtemp, removed afterwards); the check of P is evaluated on each.
Expected: every breaking change raises a violation, every rewrite is silent.
"""
import glob
import json
import os
import re
import shutil
import subprocess
import sys
import tempfile
from multiprocessing import Pool

HERE = os.path.dirname(os.path.abspath(__file__))
ROOT = os.path.dirname(HERE)
sys.path.insert(0, ROOT)
REPO = os.environ.get('TTSA_REPO', '/repo')


def _cases(pid):
    cases = []
    for d in sorted(glob.glob(os.path.join(ROOT, 'seeded', pid + '-*'))):
        kind = 'breaking'
        mp = os.path.join(d, 'meta.json')
        if os.path.exists(mp):
            try:
                kind = json.load(open(mp)).get('kind', 'breaking')
            except Exception:
                pass
        cases.append((os.path.basename(d), 'patch', os.path.join(d, 'patch.diff'), kind))
    kf = os.path.join(ROOT, 'KNOWN_FINDINGS.txt')
    seen = set()
    if os.path.exists(kf):
        for line in open(kf):
            m = re.match(r'fixed: property=(\S+) (\S+) ', line)
            if m and m.group(1) == pid and m.group(2) not in seen:
                seen.add(m.group(2))
                cases.append(('unfix-' + m.group(2), 'commit', m.group(2), 'breaking'))
    from selftest import rewrites
    for name in sorted(rewrites.REWRITES):
        cases.append(('rewrite-' + name, 'rewrite', name, 'preserving'))
    return cases


def _run(args):
    pid, (name, how, src, kind) = args
    tmp = tempfile.mkdtemp(prefix='ttsa-val-')
    try:
        from selftest import rewrites
        os.makedirs(os.path.join(tmp, 'trees'))
        for fn in sorted(os.listdir(os.path.join(REPO, 'trees'))):
            if fn.endswith('.py'):
                shutil.copy(os.path.join(REPO, 'trees', fn), os.path.join(tmp, 'trees', fn))
        shutil.copy(os.path.join(REPO, 'treetools'), tmp)
        if how == 'patch':
            r = subprocess.run(['patch', '-p1', '-s', '-d', tmp], input=open(src).read(), capture_output=True, text=True)
            if r.returncode != 0:
                return name, kind, 'not-applicable', 'patch does not apply to the current tree'
        elif how == 'commit':
            diff = subprocess.run(['git', '-C', REPO, 'diff', src + '^', src], capture_output=True, text=True).stdout
            r = subprocess.run(['patch', '-p1', '-R', '-s', '-d', tmp], input=diff, capture_output=True, text=True)
            if r.returncode != 0 or not diff:
                return name, kind, 'not-applicable', 'commit does not reverse-apply to the current tree'
        else:
            import warnings
            for fn in sorted(os.listdir(os.path.join(tmp, 'trees'))):
                p = os.path.join(tmp, 'trees', fn)
                with open(p, encoding='utf-8') as f:
                    s = f.read()
                with warnings.catch_warnings():
                    warnings.simplefilter('ignore')
                    out = rewrites.apply(src, s)
                with open(p, 'w', encoding='utf-8') as f:
                    f.write(out)
        from ttsa.core import Program, AnalysisError
        import check
        try:
            P = Program(repo=tmp)
            obs, _, _, errors = check.evaluate(pid, 'quick', P, {})
        except AnalysisError as e:
            return name, kind, 'analysis-error', str(e)
        bad = [o for o in obs if not o.ok]
        if bad:
            return name, kind, 'violation', '%s %s' % (bad[0].rule, bad[0].site)
        if errors:
            return name, kind, 'analysis-error', errors[0][:120]
        return name, kind, 'silent', ''
    finally:
        shutil.rmtree(tmp, ignore_errors=True)


def validate(pid):
    cases = _cases(pid)
    with Pool(min(16, max(1, len(cases)))) as pool:
        res = pool.map(_run, [(pid, c) for c in cases])
    breaking = [r for r in res if r[1] == 'breaking' and r[2] != 'not-applicable']
    preserving = [r for r in res if r[1] == 'preserving' and r[2] != 'not-applicable']
    out = {
        'selfvalidation': {
            'explanation': 'informational: the check of %s evaluated on scratch copies of the current tree with one '
                           'change each; measures the checker, does not decide the property' % pid,
            'breaking_changes': len(breaking),
            'breaking_detected': sum(1 for r in breaking if r[2] == 'violation'),
            'breaking_missed': [r[0] for r in breaking if r[2] != 'violation'],
            'preserving_changes': len(preserving),
            'preserving_silent': sum(1 for r in preserving if r[2] == 'silent'),
            'preserving_alarmed': [(r[0], r[2], r[3]) for r in preserving if r[2] != 'silent'],
            'not_applicable': [r[0] for r in res if r[2] == 'not-applicable'],
            'detail': [list(r) for r in res],
        }
    }
    return out


if __name__ == '__main__':
    for pid in sys.argv[1:]:
        v = validate(pid)['selfvalidation']
        print(pid, 'breaking %d/%d detected, missed %s; preserving %d/%d silent, alarmed %s' % (
            v['breaking_detected'], v['breaking_changes'], v['breaking_missed'],
            v['preserving_silent'], v['preserving_changes'], v['preserving_alarmed']))
