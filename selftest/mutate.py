#!/venv/bin/python
"""Run the rules against mutated copies of /repo's current working tree.

Mutants: `seeded` /verif/seeded/<id>/patch.diff; `unfix` the reverse of every `fix:` commit of /repo (the defect comes
back); `pending:<dir>` the changes of a round that is not ingested yet (<dir>/<Cxx>/out/<id>/patch.diff).
Each mutant is applied to a scratch copy (trees/ + treetools) under mkdtemp, removed afterwards.
Informational: measures the checker, never decides a property.
"""
import glob, json, os, shutil, subprocess, sys, tempfile
from multiprocessing import Pool
HERE = os.path.dirname(os.path.abspath(__file__))
sys.path.insert(0, os.path.dirname(HERE))
REPO = os.environ.get('TTSA_REPO', '/repo')


def fix_commits():
    out = subprocess.run(['git', '-C', REPO, 'log', '--format=%h %s'], capture_output=True, text=True).stdout
    res = []
    for line in out.splitlines():
        h, s = line.split(' ', 1)
        if s.startswith('fix:'):
            res.append((h, s))
    return res


def mutants(which):
    ms = []
    if 'seeded' in which:
        for d in sorted(glob.glob(os.path.join(os.path.dirname(HERE), 'seeded', '*', 'patch.diff'))):
            ms.append(('seeded/' + os.path.basename(os.path.dirname(d)), d, False))
    # changes of a round that is not ingested yet: `pending:/tmp/seed9` reads <dir>/<Cxx>/out/<id>/patch.diff
    for w in which:
        if w.startswith('pending:'):
            base = w.split(':', 1)[1].rstrip('/')
            for d in sorted(glob.glob(base + '/*/out/[mr]*/patch.diff')):
                parts = d.split('/')
                ms.append(('%s/%s-%s' % (os.path.basename(base), parts[-4], parts[-2]), d, False))
    if 'unfix' in which:
        for h, s in fix_commits():
            ms.append(('unfix/%s %s' % (h, s[:60]), h, True))
    return ms


def run_one(m):
    name, src, is_commit = m
    tmp = tempfile.mkdtemp(prefix='ttsa-mut-')
    try:
        shutil.copytree(os.path.join(REPO, 'trees'), os.path.join(tmp, 'trees'),
                        ignore=shutil.ignore_patterns('__pycache__'))
        shutil.copy(os.path.join(REPO, 'treetools'), tmp)
        if is_commit:
            diff = subprocess.run(['git', '-C', REPO, 'diff', src + '^', src], capture_output=True, text=True).stdout
            r = subprocess.run(['patch', '-p1', '-R', '-s', '-d', tmp], input=diff, capture_output=True, text=True)
        else:
            r = subprocess.run(['patch', '-p1', '-s', '-d', tmp], input=open(src).read(), capture_output=True, text=True)
        if r.returncode != 0:
            return name, None, 'patch failed: ' + (r.stdout + r.stderr)[:200]
        from ttsa.core import Program, AnalysisError
        from ttsa import props
        res = {}
        try:
            P = Program(repo=tmp)
        except Exception as e:
            return name, None, 'load error %s' % e
        import check
        cache = {}
        for pid in sorted(props.PROPS):
            try:
                obs, _, _, errors = check.evaluate(pid, 'quick', P, cache)
                bad = [o for o in obs if not o.ok]
                if bad:
                    res[pid] = ['%s %s: %s' % (o.rule, o.site, o.detail[:100]) for o in bad]
                elif errors:
                    res[pid] = ['ANALYSIS-ERROR %s' % e for e in errors]
            except AnalysisError as e:
                res[pid] = ['ANALYSIS-ERROR %s' % e]
            except Exception as e:
                res[pid] = ['CRASH %r' % e]
        return name, res, None
    finally:
        shutil.rmtree(tmp, ignore_errors=True)


def main():
    which = sys.argv[1:] or ['seeded', 'unfix']
    verbose = os.environ.get('V')
    ms = mutants(which)
    with Pool(min(16, max(1, len(ms)))) as pool:
        results = pool.map(run_one, ms)
    caught = 0
    for name, res, err in results:
        if err:
            print('%-70s ERROR %s' % (name, err))
            continue
        import re
        own = re.search(r'(C\d\d)', name.split('/')[1]) if '/' in name else None
        own = own.group(1) if own else None
        flags = []
        for pid in sorted(res):
            tag = pid
            if any(x.startswith('ANALYSIS-ERROR') or x.startswith('CRASH') for x in res[pid]):
                tag += '(ERR)'
            flags.append(tag)
        hit = bool(res) and (own is None or own in res) and not (own and any(
            x.startswith(('ANALYSIS-ERROR', 'CRASH')) for x in res.get(own, [])))
        if re.search(r'-r\d+$', name) or 'preserving' in name:
            hit = not res        # a behaviour-preserving change must stay silent
        if hit:
            caught += 1
        print('%-66s %s %s' % (name[:66], 'ok  ' if hit else 'MISS', ' '.join(flags)))
        if verbose:
            for rn in sorted(res):
                for line in res[rn][:3]:
                    print('      ' + line)
    print('caught %d of %d' % (caught, len(results)))


if __name__ == '__main__':
    main()
