#!/venv/bin/python
"""Behaviour-preserving rewrites of /repo's current tree; the checks must stay silent on each.

  alpha     rename every non-parameter local of every function (x -> x_r)
  flip      a > b -> b < a, a >= b -> b <= a (and back for < / <=)
  notin     `not x in y` <-> `x not in y`; `== None` <-> `is None`; `!= None` <-> `is not None`
  noop      a `pass` at the start of every function body and loop body
  unparse   whole files re-printed by ast.unparse (quotes, parentheses, line numbers change)
  docs      every docstring replaced, a logging-style no-op call added to every function
  swapif    `if c: A else: B` -> `if not c: B else: A` for every two-way if without elif
  lenzero   `len(x) == 0` -> `not x`, `len(x) > 0` / `len(x) != 0` -> truth value of x (in conditions)
  fstring   `"...%s..%d" % (a, b)` with a literal format -> f-string
  uncomp    `v = [E for x in it if c]` as a statement -> `v = []` and a loop with append
  elseret   the `else` after a branch that ends in return / raise / continue / break is removed (its body follows the if)
  ternary   `x = A; if c: x = B` -> `x = B if c else A` (A a constant / name / attribute, c does not read x)
  hoistarg  the first call nested in the arguments of a statement-level call gets a temporary of its own
  keyconst  every literal key of a `.data[...]` access becomes a module-level constant `_K_<key>`
  kwcall    calls of functions of the same module pass their arguments by keyword
  mergeif   `if a: if b: S` (no else on either) -> `if a and b: S`
  splitand  `if a and b: S` (no else) -> `if a: if b: S`
  whiletrue `while c: body` -> `while True: if not c: break; body` (loops without else)
  dotformat `"..%s.." % (a, b)` with only %s -> `"..{}..".format(a, b)`
  listcopy  `for x in xs:` -> `for x in list(xs):` for every loop over a name / attribute / call
  eafp      `x = D; if 'k' in kw: x = kw['k']` -> `try: x = kw['k']  except KeyError: x = D`
  filterloop `for x in it: if c: B` -> `for x in filter(lambda x: c, it): B`
  closure   the block of an `if` that binds no name and does not leave becomes a local function called in its place
  annotate  every parameter and function gets a type annotation, the first plain assignment of every local becomes `x: T = v`
  require   `if c: raise E('literal')` -> `_require_rw(not c, E, 'literal')` with a module-level helper
  demorgan  `if a and b:` -> `if not (not a or not b):`
  findin    `s.find('x') > -1` -> `'x' in s` (and the negated forms)
  duptail   a simple statement behind a two-way `if` whose branches fall through is copied to the end of both branches
  modalias  every package module is imported under another name (`from . import trees as trees_m`)
  fromimp   functions / constants of other package modules are imported directly (`from .trees import children`) wherever
            no scope of the importing module binds the same name

Informational (measures the checker, never decides a property): prints per rewrite the properties whose
check raised a violation or an analysis error (expected: none).
"""
import ast
import os
import shutil
import sys
import tempfile
from multiprocessing import Pool

HERE = os.path.dirname(os.path.abspath(__file__))
sys.path.insert(0, os.path.dirname(HERE))
REPO = os.environ.get('TTSA_REPO', '/repo')


class Alpha(ast.NodeTransformer):
    def visit_FunctionDef(self, node):
        params = set(a.arg for a in node.args.posonlyargs + node.args.args + node.args.kwonlyargs)
        if node.args.vararg:
            params.add(node.args.vararg.arg)
        if node.args.kwarg:
            params.add(node.args.kwarg.arg)
        stores = set()
        for n in ast.walk(node):
            if n is node:
                continue
            if isinstance(n, (ast.FunctionDef, ast.ClassDef, ast.Lambda)):
                continue
            if isinstance(n, ast.Name) and isinstance(n.ctx, (ast.Store, ast.Del)):
                stores.add(n.id)
            if isinstance(n, ast.ExceptHandler) and n.name:
                stores.add(n.name)
        # lambda parameters stay as they are
        lam = set()
        for n in ast.walk(node):
            if isinstance(n, ast.Lambda):
                for a in n.args.args:
                    lam.add(a.arg)
        # what a nested function reads or writes keeps its name (the nested function is left as it is)
        inner = set()
        for n in ast.walk(node):
            if isinstance(n, ast.FunctionDef) and n is not node:
                inner.add(n.name)
                for m in ast.walk(n):
                    if isinstance(m, ast.Name):
                        inner.add(m.id)
        ren = dict((s, s + '_r') for s in stores - params - lam - inner if s != node.name)

        class R(ast.NodeTransformer):
            def visit_Name(self, n):
                if n.id in ren:
                    return ast.copy_location(ast.Name(id=ren[n.id], ctx=n.ctx), n)
                return n

            def visit_ExceptHandler(self, n):
                self.generic_visit(n)
                if n.name in ren:
                    n.name = ren[n.name]
                return n

            def visit_FunctionDef(self, n):
                return n
        node.body = [R().visit(st) for st in node.body]
        return node


class Flip(ast.NodeTransformer):
    M = {ast.Gt: ast.Lt, ast.GtE: ast.LtE, ast.Lt: ast.Gt, ast.LtE: ast.GtE}

    def visit_Compare(self, node):
        self.generic_visit(node)
        if len(node.ops) == 1 and type(node.ops[0]) in self.M:
            return ast.copy_location(ast.Compare(left=node.comparators[0], ops=[self.M[type(node.ops[0])]()],
                                                 comparators=[node.left]), node)
        return node


class NotIn(ast.NodeTransformer):
    def visit_UnaryOp(self, node):
        self.generic_visit(node)
        if isinstance(node.op, ast.Not) and isinstance(node.operand, ast.Compare) and len(node.operand.ops) == 1 \
                and isinstance(node.operand.ops[0], ast.In):
            c = node.operand
            return ast.copy_location(ast.Compare(left=c.left, ops=[ast.NotIn()], comparators=c.comparators), node)
        return node

    def visit_Compare(self, node):
        self.generic_visit(node)
        if len(node.ops) == 1:
            r = node.comparators[0]
            if isinstance(r, ast.Constant) and r.value is None:
                if isinstance(node.ops[0], ast.Eq):
                    node.ops = [ast.Is()]
                elif isinstance(node.ops[0], ast.NotEq):
                    node.ops = [ast.IsNot()]
                elif isinstance(node.ops[0], ast.Is):
                    node.ops = [ast.Eq()]
                elif isinstance(node.ops[0], ast.IsNot):
                    node.ops = [ast.NotEq()]
            elif isinstance(node.ops[0], ast.NotIn):
                return ast.copy_location(ast.UnaryOp(op=ast.Not(), operand=ast.Compare(
                    left=node.left, ops=[ast.In()], comparators=node.comparators)), node)
        return node


class Noop(ast.NodeTransformer):
    def _body(self, body):
        i = 1 if body and isinstance(body[0], ast.Expr) and isinstance(body[0].value, ast.Constant) \
            and isinstance(body[0].value.value, str) else 0
        return body[:i] + [ast.Pass()] + body[i:]

    def visit_FunctionDef(self, node):
        self.generic_visit(node)
        node.body = self._body(node.body)
        return node

    def visit_For(self, node):
        self.generic_visit(node)
        node.body = self._body(node.body)
        return node

    def visit_While(self, node):
        self.generic_visit(node)
        node.body = self._body(node.body)
        return node


class Docs(ast.NodeTransformer):
    def visit_FunctionDef(self, node):
        self.generic_visit(node)
        call = ast.Expr(ast.Call(func=ast.Name(id='repr', ctx=ast.Load()),
                                 args=[ast.Constant('enter ' + node.name)], keywords=[]))
        if node.body and isinstance(node.body[0], ast.Expr) and isinstance(node.body[0].value, ast.Constant) \
                and isinstance(node.body[0].value.value, str):
            keep = node.body[0].value.value
            # keep documented headings that the usage output prints, change the rest of the text
            node.body[0] = ast.Expr(ast.Constant(keep + '\n\n    (reviewed)\n    '))
            node.body = [node.body[0], call] + node.body[1:]
        else:
            node.body = [call] + node.body
        return node


PKG_MODULES = ['trees', 'treeinput', 'treeoutput', 'transform', 'transformconst', 'transitions', 'transitionoutput',
               'treeanalysis', 'grammar', 'grammarconst', 'grammaranalysis', 'grammarinput', 'grammaroutput', 'misc']


def _bound_names(tree):
    out = set()
    for n in ast.walk(tree):
        if isinstance(n, ast.Name) and isinstance(n.ctx, (ast.Store, ast.Del)):
            out.add(n.id)
        elif isinstance(n, (ast.FunctionDef, ast.ClassDef)):
            out.add(n.name)
        elif isinstance(n, ast.arg):
            out.add(n.arg)
        elif isinstance(n, ast.ExceptHandler) and n.name:
            out.add(n.name)
    return out


class ModAlias(ast.NodeTransformer):
    """from . import trees, misc  ->  from . import trees as trees_m, misc as misc_m  (uses renamed)"""

    def visit_Module(self, node):
        bound = _bound_names(node)
        self.ren = {}
        for st in node.body:
            if isinstance(st, ast.ImportFrom) and st.level >= 1 and not st.module:
                for a in st.names:
                    if a.name in PKG_MODULES and not a.asname and a.name not in bound and a.name + '_m' not in bound:
                        self.ren[a.name] = a.name + '_m'
                        a.asname = a.name + '_m'
        self.generic_visit(node)
        return node

    def visit_Name(self, node):
        if isinstance(node.ctx, ast.Load) and node.id in self.ren:
            return ast.copy_location(ast.Name(id=self.ren[node.id], ctx=ast.Load()), node)
        return node


class FromImp(ast.NodeTransformer):
    """trees.children(x) -> children(x) with `from .trees import children`, for names nothing in the module binds"""

    def visit_Module(self, node):
        bound = _bound_names(node)
        self.mods = set()
        for st in node.body:
            if isinstance(st, ast.ImportFrom) and st.level >= 1 and not st.module:
                self.mods |= set(a.name for a in st.names if a.name in PKG_MODULES and not a.asname and a.name not in bound)
        self.bound = bound
        self.used = {}
        self.generic_visit(node)
        imports = [ast.ImportFrom(module=m, names=[ast.alias(name=n, asname=None) for n in sorted(ns)], level=1)
                   for m, ns in sorted(self.used.items())]
        k = 0
        while k < len(node.body) and not isinstance(node.body[k], (ast.FunctionDef, ast.ClassDef, ast.Assign)):
            k += 1
        node.body = node.body[:k] + imports + node.body[k:]
        return node

    def visit_Attribute(self, node):
        self.generic_visit(node)
        if isinstance(node.ctx, ast.Load) and isinstance(node.value, ast.Name) and node.value.id in self.mods \
                and node.attr not in self.bound and not node.attr.startswith('_'):
            # one name must not be imported from two modules
            for m, ns in self.used.items():
                if m != node.value.id and node.attr in ns:
                    return node
            self.used.setdefault(node.value.id, set()).add(node.attr)
            return ast.copy_location(ast.Name(id=node.attr, ctx=ast.Load()), node)
        return node


class SwapIf(ast.NodeTransformer):
    def visit_If(self, node):
        self.generic_visit(node)
        if node.orelse and not (len(node.orelse) == 1 and isinstance(node.orelse[0], ast.If)):
            t = node.test
            neg = t.operand if isinstance(t, ast.UnaryOp) and isinstance(t.op, ast.Not) else ast.UnaryOp(op=ast.Not(), operand=t)
            return ast.copy_location(ast.If(test=neg, body=node.orelse, orelse=node.body), node)
        return node


class LenZero(ast.NodeTransformer):
    def _conv(self, t):
        if isinstance(t, ast.Compare) and len(t.ops) == 1 and isinstance(t.left, ast.Call) and isinstance(t.left.func, ast.Name) \
                and t.left.func.id == 'len' and len(t.left.args) == 1 and isinstance(t.comparators[0], ast.Constant) \
                and t.comparators[0].value == 0:
            x = t.left.args[0]
            if isinstance(t.ops[0], ast.Eq):
                return ast.UnaryOp(op=ast.Not(), operand=x)
            if isinstance(t.ops[0], (ast.Gt, ast.NotEq)):
                return x
        return t

    def visit_If(self, node):
        self.generic_visit(node)
        node.test = self._conv(node.test)
        return node

    def visit_While(self, node):
        self.generic_visit(node)
        node.test = self._conv(node.test)
        return node

    def visit_BoolOp(self, node):
        self.generic_visit(node)
        return node


class FString(ast.NodeTransformer):
    def visit_BinOp(self, node):
        self.generic_visit(node)
        if not (isinstance(node.op, ast.Mod) and isinstance(node.left, ast.Constant) and isinstance(node.left.value, str)):
            return node
        import re
        fmt = node.left.value
        specs = re.findall(r'%(%|[sd])', fmt)
        if re.search(r'%[^sd%]', fmt) or '{' in fmt or '}' in fmt:
            return node
        args = list(node.right.elts) if isinstance(node.right, ast.Tuple) else [node.right]
        if len([x for x in specs if x != '%']) != len(args):
            return node
        if any(isinstance(a, (ast.Dict,)) for a in args):
            return node
        parts = re.split(r'(%%|%s|%d)', fmt)
        vals = []
        it = iter(args)
        for p_ in parts:
            if p_ == '%%':
                vals.append(ast.Constant('%'))
            elif p_ == '%s':
                vals.append(ast.FormattedValue(value=next(it), conversion=-1, format_spec=None))
            elif p_ == '%d':
                vals.append(ast.FormattedValue(value=next(it), conversion=-1,
                                               format_spec=ast.JoinedStr(values=[ast.Constant('d')])))
            elif p_:
                vals.append(ast.Constant(p_))
        # adjacent constants are merged by the compiler anyway
        return ast.copy_location(ast.JoinedStr(values=vals), node)


class UnComp(ast.NodeTransformer):
    def _stmts(self, body):
        out = []
        for st in body:
            if isinstance(st, ast.Assign) and len(st.targets) == 1 and isinstance(st.targets[0], ast.Name) \
                    and isinstance(st.value, ast.ListComp) and len(st.value.generators) == 1 \
                    and not st.value.generators[0].is_async \
                    and st.targets[0].id not in [n.id for n in ast.walk(st.value) if isinstance(n, ast.Name)]:
                g = st.value.generators[0]
                v = st.targets[0].id
                app = ast.Expr(ast.Call(func=ast.Attribute(value=ast.Name(id=v, ctx=ast.Load()), attr='append', ctx=ast.Load()),
                                        args=[st.value.elt], keywords=[]))
                inner = [app]
                for c in reversed(g.ifs):
                    inner = [ast.If(test=c, body=inner, orelse=[])]
                out.append(ast.copy_location(ast.Assign(targets=[ast.Name(id=v, ctx=ast.Store())], value=ast.List(elts=[], ctx=ast.Load())), st))
                out.append(ast.copy_location(ast.For(target=g.target, iter=g.iter, body=inner, orelse=[]), st))
            else:
                out.append(st)
        return out

    def generic_visit(self, node):
        super().generic_visit(node)
        for fld in ('body', 'orelse', 'finalbody'):
            b = getattr(node, fld, None)
            if isinstance(b, list) and b and isinstance(b[0], ast.stmt):
                setattr(node, fld, self._stmts(b))
        return node


class ElseRet(ast.NodeTransformer):
    def _fix(self, body):
        out = []
        for st in body:
            if isinstance(st, ast.If) and st.orelse and st.body and isinstance(st.body[-1], (ast.Return, ast.Raise, ast.Continue, ast.Break)) \
                    and not (len(st.orelse) == 1 and isinstance(st.orelse[0], ast.If)):
                rest = st.orelse
                st.orelse = []
                out.append(st)
                out.extend(rest)
            else:
                out.append(st)
        return out

    def generic_visit(self, node):
        super().generic_visit(node)
        for fld in ('body', 'orelse', 'finalbody'):
            b = getattr(node, fld, None)
            if isinstance(b, list) and b and isinstance(b[0], ast.stmt):
                setattr(node, fld, self._fix(b))
        return node


class Ternary(ast.NodeTransformer):
    def _fix(self, body):
        out = []
        i = 0
        while i < len(body):
            st = body[i]
            nx = body[i + 1] if i + 1 < len(body) else None
            if isinstance(st, ast.Assign) and len(st.targets) == 1 and isinstance(st.targets[0], ast.Name) \
                    and isinstance(st.value, (ast.Constant, ast.Name, ast.Attribute)) and isinstance(nx, ast.If) and not nx.orelse \
                    and len(nx.body) == 1 and isinstance(nx.body[0], ast.Assign) and len(nx.body[0].targets) == 1 \
                    and isinstance(nx.body[0].targets[0], ast.Name) and nx.body[0].targets[0].id == st.targets[0].id \
                    and st.targets[0].id not in [n.id for n in ast.walk(nx.test) if isinstance(n, ast.Name)] \
                    and st.targets[0].id not in [n.id for n in ast.walk(nx.body[0].value) if isinstance(n, ast.Name)]:
                new = ast.Assign(targets=st.targets, value=ast.IfExp(test=nx.test, body=nx.body[0].value, orelse=st.value))
                out.append(ast.copy_location(new, st))
                i += 2
                continue
            out.append(st)
            i += 1
        return out

    def generic_visit(self, node):
        super().generic_visit(node)
        for fld in ('body', 'orelse', 'finalbody'):
            b = getattr(node, fld, None)
            if isinstance(b, list) and b and isinstance(b[0], ast.stmt):
                setattr(node, fld, self._fix(b))
        return node


class HoistArg(ast.NodeTransformer):
    def __init__(self):
        self.k = 0

    def _fix(self, body):
        out = []
        for st in body:
            call = st.value if isinstance(st, (ast.Expr, ast.Assign, ast.Return)) and isinstance(getattr(st, 'value', None), ast.Call) else None
            if call is not None and not any(isinstance(x, (ast.Yield, ast.YieldFrom, ast.Lambda)) for x in ast.walk(call)) \
                    and isinstance(call.func, (ast.Name, ast.Attribute)) and not any(isinstance(x, ast.Call) for x in ast.walk(call.func)):
                for j, a in enumerate(call.args):
                    if isinstance(a, ast.Call) and all(isinstance(b, (ast.Name, ast.Constant)) for b in call.args[:j]) \
                            and not any(isinstance(x, (ast.Starred,)) for x in call.args):
                        self.k += 1
                        t = '_arg%d' % self.k
                        out.append(ast.copy_location(ast.Assign(targets=[ast.Name(id=t, ctx=ast.Store())], value=a), st))
                        call.args[j] = ast.Name(id=t, ctx=ast.Load())
                        break
                    if not isinstance(a, (ast.Name, ast.Constant)):
                        break
            out.append(st)
        return out

    def generic_visit(self, node):
        super().generic_visit(node)
        if isinstance(node, (ast.Lambda,)):
            return node
        for fld in ('body', 'orelse', 'finalbody'):
            b = getattr(node, fld, None)
            if isinstance(b, list) and b and isinstance(b[0], ast.stmt):
                setattr(node, fld, self._fix(b))
        return node


class KeyConst(ast.NodeTransformer):
    def visit_Module(self, node):
        self.keys = set()
        self.generic_visit(node)
        defs = [ast.Assign(targets=[ast.Name(id='_K_' + k, ctx=ast.Store())], value=ast.Constant(k)) for k in sorted(self.keys)]
        k = 0
        while k < len(node.body) and (isinstance(node.body[k], (ast.Import, ast.ImportFrom)) or (
                isinstance(node.body[k], ast.Expr) and isinstance(node.body[k].value, ast.Constant))):
            k += 1
        node.body = node.body[:k] + defs + node.body[k:]
        return node

    def visit_Subscript(self, node):
        self.generic_visit(node)
        if isinstance(node.value, ast.Attribute) and node.value.attr == 'data' and isinstance(node.slice, ast.Constant) \
                and isinstance(node.slice.value, str) and node.slice.value.isidentifier():
            self.keys.add(node.slice.value)
            node.slice = ast.Name(id='_K_' + node.slice.value, ctx=ast.Load())
        return node


class KwCall(ast.NodeTransformer):
    def visit_Module(self, node):
        self.sigs = {}
        counts = {}
        for st in node.body:
            if isinstance(st, ast.FunctionDef):
                counts[st.name] = counts.get(st.name, 0) + 1
        for st in node.body:
            if isinstance(st, ast.FunctionDef) and counts[st.name] == 1 and not st.args.vararg and not st.args.posonlyargs \
                    and not st.decorator_list:
                self.sigs[st.name] = [a.arg for a in st.args.args]
        self.scopes = []
        self.generic_visit(node)
        return node

    def visit_FunctionDef(self, node):
        loc = set(a.arg for a in node.args.args)
        for n in ast.walk(node):
            if isinstance(n, ast.Name) and isinstance(n.ctx, ast.Store):
                loc.add(n.id)
        self.scopes.append(loc)
        self.generic_visit(node)
        self.scopes.pop()
        return node

    def visit_Call(self, node):
        self.generic_visit(node)
        if isinstance(node.func, ast.Name) and node.func.id in self.sigs and not any(node.func.id in sc for sc in self.scopes) \
                and not any(isinstance(a, ast.Starred) for a in node.args) and len(node.args) <= len(self.sigs[node.func.id]) \
                and len(node.args) >= 2:
            params = self.sigs[node.func.id]
            used = set(k.arg for k in node.keywords if k.arg)
            if not (used & set(params[:len(node.args)])):
                # keep the first argument positional, the rest by name (in the same order)
                kws = [ast.keyword(arg=params[i], value=a) for i, a in enumerate(node.args) if i >= 1]
                node.keywords = kws + node.keywords
                node.args = node.args[:1]
        return node


class MergeIf(ast.NodeTransformer):
    def visit_If(self, node):
        self.generic_visit(node)
        if not node.orelse and len(node.body) == 1 and isinstance(node.body[0], ast.If) and not node.body[0].orelse:
            inner = node.body[0]
            return ast.copy_location(ast.If(test=ast.BoolOp(op=ast.And(), values=[node.test, inner.test]), body=inner.body, orelse=[]), node)
        return node


class SplitAnd(ast.NodeTransformer):
    def visit_If(self, node):
        self.generic_visit(node)
        if not node.orelse and isinstance(node.test, ast.BoolOp) and isinstance(node.test.op, ast.And):
            vals = node.test.values
            inner = node.body
            for v in reversed(vals[1:]):
                inner = [ast.copy_location(ast.If(test=v, body=inner, orelse=[]), node)]
            return ast.copy_location(ast.If(test=vals[0], body=inner, orelse=[]), node)
        return node


class WhileTrue(ast.NodeTransformer):
    def visit_While(self, node):
        self.generic_visit(node)
        if node.orelse or (isinstance(node.test, ast.Constant) and node.test.value is True):
            return node
        t = node.test
        neg = t.operand if isinstance(t, ast.UnaryOp) and isinstance(t.op, ast.Not) else ast.UnaryOp(op=ast.Not(), operand=t)
        # `continue` in the body would skip nothing that matters (the test is at the top), so the rewrite is exact
        guard = ast.copy_location(ast.If(test=neg, body=[ast.Break()], orelse=[]), node)
        return ast.copy_location(ast.While(test=ast.Constant(True), body=[guard] + node.body, orelse=[]), node)


class DotFormat(ast.NodeTransformer):
    def visit_BinOp(self, node):
        self.generic_visit(node)
        if not (isinstance(node.op, ast.Mod) and isinstance(node.left, ast.Constant) and isinstance(node.left.value, str)):
            return node
        import re
        fmt = node.left.value
        if re.search(r'%[^s%]', fmt) or '{' in fmt or '}' in fmt or '%s' not in fmt:
            return node
        args = list(node.right.elts) if isinstance(node.right, ast.Tuple) else [node.right]
        if fmt.replace('%%', '').count('%s') != len(args) or any(isinstance(a, ast.Dict) for a in args):
            return node
        new = fmt.replace('%%', '\0').replace('%s', '{}').replace('\0', '%')
        return ast.copy_location(ast.Call(func=ast.Attribute(value=ast.Constant(new), attr='format', ctx=ast.Load()),
                                          args=args, keywords=[]), node)


class ListCopy(ast.NodeTransformer):
    def visit_For(self, node):
        self.generic_visit(node)
        if isinstance(node.iter, (ast.Name, ast.Attribute)) or (isinstance(node.iter, ast.Call) and not (
                isinstance(node.iter.func, ast.Name) and node.iter.func.id in ('list', 'range', 'enumerate', 'zip', 'iter', 'reversed', 'filter', 'map'))):
            # a generator is consumed the same way; lazily produced items are produced up front - fine for lists / tuples / dicts
            if isinstance(node.iter, ast.Call) and isinstance(node.iter.func, (ast.Name, ast.Attribute)) and (
                    getattr(node.iter.func, 'id', getattr(node.iter.func, 'attr', '')) in (
                        'preorder', 'postorder', 'dominance', 'bracket_lexer', 'brackets', 'export', 'tigerxml', 'discobrackets')
                    or 'getattr' in ast.unparse(node.iter.func)):
                return node
            node.iter = ast.Call(func=ast.Name(id='list', ctx=ast.Load()), args=[node.iter], keywords=[])
        return node


class Eafp(ast.NodeTransformer):
    def _fix(self, body):
        out = []
        i = 0
        while i < len(body):
            st = body[i]
            nx = body[i + 1] if i + 1 < len(body) else None
            if isinstance(st, ast.Assign) and len(st.targets) == 1 and isinstance(st.targets[0], ast.Name) \
                    and isinstance(st.value, (ast.Constant, ast.Name, ast.Attribute)) and isinstance(nx, ast.If) and not nx.orelse \
                    and len(nx.body) == 1 and isinstance(nx.body[0], ast.Assign) and len(nx.body[0].targets) == 1 \
                    and isinstance(nx.body[0].targets[0], ast.Name) and nx.body[0].targets[0].id == st.targets[0].id \
                    and isinstance(nx.test, ast.Compare) and len(nx.test.ops) == 1 and isinstance(nx.test.ops[0], ast.In) \
                    and isinstance(nx.test.left, ast.Constant) and isinstance(nx.test.comparators[0], ast.Name) \
                    and isinstance(nx.body[0].value, ast.Subscript) and isinstance(nx.body[0].value.value, ast.Name) \
                    and nx.body[0].value.value.id == nx.test.comparators[0].id \
                    and isinstance(nx.body[0].value.slice, ast.Constant) and nx.body[0].value.slice.value == nx.test.left.value:
                handler = ast.ExceptHandler(type=ast.Name(id='KeyError', ctx=ast.Load()), name=None, body=[st])
                new = ast.Try(body=[nx.body[0]], handlers=[handler], orelse=[], finalbody=[])
                out.append(ast.copy_location(new, st))
                i += 2
                continue
            out.append(st)
            i += 1
        return out

    def generic_visit(self, node):
        super().generic_visit(node)
        for fld in ('body', 'orelse', 'finalbody'):
            b = getattr(node, fld, None)
            if isinstance(b, list) and b and isinstance(b[0], ast.stmt):
                setattr(node, fld, self._fix(b))
        return node


class FilterLoop(ast.NodeTransformer):
    """for x in it: if c: B   ->   for x in filter(lambda x: c, it): B      (filter is lazy: c runs at the same moments)"""
    def visit_For(self, node):
        self.generic_visit(node)
        if isinstance(node.target, ast.Name) and len(node.body) == 1 and isinstance(node.body[0], ast.If) \
                and not node.body[0].orelse and not any(isinstance(x, (ast.NamedExpr, ast.Yield, ast.YieldFrom, ast.Await))
                                                        for x in ast.walk(node.body[0].test)):
            lam = ast.Lambda(args=ast.arguments(posonlyargs=[], args=[ast.arg(arg=node.target.id)], kwonlyargs=[],
                                                kw_defaults=[], defaults=[]), body=node.body[0].test)
            node.iter = ast.Call(func=ast.Name(id='filter', ctx=ast.Load()), args=[lam, node.iter], keywords=[])
            node.body = node.body[0].body
        return node


class Closure(ast.NodeTransformer):
    """if c: S1; S2 ...   ->   def _block_k(): S1; S2 ...  /  if c: _block_k()     for blocks that bind no name and do not
    leave (no return / break / continue / yield): a local closure reads the enclosing variables at the time of the call"""
    def __init__(self):
        self.k = 0
        self.depth = 0

    def visit_FunctionDef(self, node):
        self.depth += 1
        self.generic_visit(node)
        self.depth -= 1
        return node

    def visit_ClassDef(self, node):
        return node

    def _eligible(self, body):
        if len(body) < 2:
            return False
        for st in body:
            for x in ast.walk(st):
                if isinstance(x, (ast.Return, ast.Break, ast.Continue, ast.Yield, ast.YieldFrom, ast.Await, ast.Global,
                                  ast.Nonlocal, ast.NamedExpr, ast.FunctionDef, ast.ClassDef, ast.Import, ast.ImportFrom,
                                  ast.Delete)):
                    return False
                if isinstance(x, ast.Name) and not isinstance(x.ctx, ast.Load):
                    return False
                if isinstance(x, ast.ExceptHandler) and x.name:
                    return False
                if isinstance(x, (ast.ListComp, ast.SetComp, ast.DictComp, ast.GeneratorExp, ast.Lambda)):
                    return False        # their variables are bound names, too
        return True

    def _fix(self, body):
        out = []
        for st in body:
            if self.depth and isinstance(st, ast.If) and self._eligible(st.body):
                self.k += 1
                nm = '_block_%d' % self.k
                d = ast.FunctionDef(name=nm, args=ast.arguments(posonlyargs=[], args=[], kwonlyargs=[], kw_defaults=[],
                                                                defaults=[]), body=st.body, decorator_list=[], returns=None,
                                    type_comment=None, type_params=[])
                out.append(ast.copy_location(d, st))
                st.body = [ast.copy_location(ast.Expr(value=ast.Call(func=ast.Name(id=nm, ctx=ast.Load()), args=[],
                                                                     keywords=[])), st)]
            out.append(st)
        return out

    def generic_visit(self, node):
        super().generic_visit(node)
        for fld in ('body', 'orelse', 'finalbody'):
            b = getattr(node, fld, None)
            if isinstance(b, list) and b and isinstance(b[0], ast.stmt):
                setattr(node, fld, self._fix(b))
        return node


class Annotate(ast.NodeTransformer):
    """type hints everywhere: every parameter gets an annotation, every function a return annotation, the first plain
    assignment of every local becomes an annotated assignment (annotations of locals are never evaluated)"""
    def visit_FunctionDef(self, node):
        self.generic_visit(node)
        for a in node.args.posonlyargs + node.args.args + node.args.kwonlyargs:
            if a.annotation is None and a.arg not in ('self', 'cls'):
                a.annotation = ast.Constant(value='object')
        if node.args.kwarg is not None and node.args.kwarg.annotation is None:
            node.args.kwarg.annotation = ast.Constant(value='object')
        if node.returns is None:
            node.returns = ast.Constant(value='object')
        done = set(a.arg for a in node.args.posonlyargs + node.args.args + node.args.kwonlyargs)
        glob = set()
        for x in ast.walk(node):
            if isinstance(x, (ast.Global, ast.Nonlocal)):
                glob.update(x.names)
        new = []
        for st in node.body:
            if isinstance(st, ast.Assign) and len(st.targets) == 1 and isinstance(st.targets[0], ast.Name) \
                    and st.targets[0].id not in done and st.targets[0].id not in glob:
                done.add(st.targets[0].id)
                new.append(ast.copy_location(ast.AnnAssign(target=st.targets[0], annotation=ast.Constant(value='object'),
                                                           value=st.value, simple=1), st))
            else:
                new.append(st)
        node.body = new
        return node


class Require(ast.NodeTransformer):
    """if c: raise E(<literal message>)   ->   _require_rw(not c, E, <literal message>)     (helper added to the module; only
    for messages that are plain literals, so nothing is evaluated that was not evaluated before)"""
    def __init__(self):
        self.used = False

    def visit_If(self, node):
        self.generic_visit(node)
        if not node.orelse and len(node.body) == 1 and isinstance(node.body[0], ast.Raise) and node.body[0].cause is None \
                and isinstance(node.body[0].exc, ast.Call) and isinstance(node.body[0].exc.func, ast.Name) \
                and len(node.body[0].exc.args) == 1 and not node.body[0].exc.keywords \
                and isinstance(node.body[0].exc.args[0], ast.Constant):
            self.used = True
            call = ast.Call(func=ast.Name(id='_require_rw', ctx=ast.Load()),
                            args=[ast.UnaryOp(op=ast.Not(), operand=node.test), node.body[0].exc.func, node.body[0].exc.args[0]],
                            keywords=[])
            return ast.copy_location(ast.Expr(value=call), node)
        return node

    def visit_Module(self, node):
        self.generic_visit(node)
        if self.used:
            helper = ast.parse('def _require_rw(cond, exc, message):\n    if not cond:\n        raise exc(message)\n').body[0]
            i = 0
            while i < len(node.body) and (isinstance(node.body[i], (ast.Import, ast.ImportFrom)) or (
                    isinstance(node.body[i], ast.Expr) and isinstance(node.body[i].value, ast.Constant))):
                i += 1
            node.body.insert(i, helper)
        return node


class DeMorgan(ast.NodeTransformer):
    """`if a and b:` -> `if not (not a or not b):`;  `if not (a or b)` etc. are left alone: one direction is enough to change
    the shape of every conjunction used as a condition"""
    def _neg(self, e):
        if isinstance(e, ast.UnaryOp) and isinstance(e.op, ast.Not):
            return e.operand
        return ast.UnaryOp(op=ast.Not(), operand=e)

    def visit_If(self, node):
        self.generic_visit(node)
        t = node.test
        if isinstance(t, ast.BoolOp) and isinstance(t.op, ast.And) and not any(isinstance(x, ast.NamedExpr) for x in ast.walk(t)):
            node.test = ast.UnaryOp(op=ast.Not(), operand=ast.BoolOp(op=ast.Or(), values=[self._neg(v) for v in t.values]))
        return node


class FindIn(ast.NodeTransformer):
    """`s.find('x') > -1` / `>= 0` / `!= -1` -> `'x' in s`;  `== -1` / `< 0` -> `'x' not in s`   (constant needle)"""
    def visit_Compare(self, node):
        self.generic_visit(node)
        if len(node.ops) == 1 and isinstance(node.left, ast.Call) and isinstance(node.left.func, ast.Attribute) \
                and node.left.func.attr == 'find' and len(node.left.args) == 1 and isinstance(node.left.args[0], ast.Constant) \
                and isinstance(node.left.args[0].value, str) and isinstance(node.comparators[0], (ast.Constant, ast.UnaryOp)):
            try:
                k = ast.literal_eval(node.comparators[0])
            except Exception:
                return node
            op = type(node.ops[0])
            pos = (op is ast.Gt and k == -1) or (op is ast.GtE and k == 0) or (op is ast.NotEq and k == -1)
            neg = (op is ast.Eq and k == -1) or (op is ast.Lt and k == 0)
            if pos or neg:
                return ast.copy_location(ast.Compare(left=node.left.args[0], ops=[ast.In() if pos else ast.NotIn()],
                                                     comparators=[node.left.func.value]), node)
        return node


class DupTail(ast.NodeTransformer):
    """if c: A else: B; T   ->   if c: A; T else: B; T    for a single simple statement T behind a two-way `if` whose
    branches fall through (T runs after either branch anyway)"""
    def _falls(self, body):
        return not any(isinstance(x, (ast.Return, ast.Raise, ast.Break, ast.Continue)) for st in body for x in ast.walk(st))

    def _fix(self, body):
        out = []
        i = 0
        while i < len(body):
            st = body[i]
            nx = body[i + 1] if i + 1 < len(body) else None
            if isinstance(st, ast.If) and st.orelse and not (len(st.orelse) == 1 and isinstance(st.orelse[0], ast.If)) \
                    and isinstance(nx, (ast.Assign, ast.AugAssign, ast.Expr)) and self._falls(st.body) and self._falls(st.orelse) \
                    and not any(isinstance(x, (ast.Yield, ast.YieldFrom, ast.NamedExpr)) for x in ast.walk(nx)):
                import copy as _c
                st.body = st.body + [_c.deepcopy(nx)]
                st.orelse = st.orelse + [_c.deepcopy(nx)]
                out.append(st)
                i += 2
                continue
            out.append(st)
            i += 1
        return out

    def generic_visit(self, node):
        super().generic_visit(node)
        for fld in ('body', 'orelse', 'finalbody'):
            b = getattr(node, fld, None)
            if isinstance(b, list) and b and isinstance(b[0], ast.stmt) and not isinstance(node, ast.ClassDef):
                setattr(node, fld, self._fix(b))
        return node


REWRITES = {'alpha': Alpha, 'flip': Flip, 'notin': NotIn, 'noop': Noop, 'docs': Docs, 'unparse': None,
            'modalias': ModAlias, 'fromimp': FromImp, 'swapif': SwapIf, 'lenzero': LenZero, 'fstring': FString,
            'uncomp': UnComp, 'elseret': ElseRet, 'ternary': Ternary, 'hoistarg': HoistArg, 'keyconst': KeyConst,
            'kwcall': KwCall, 'mergeif': MergeIf, 'splitand': SplitAnd, 'whiletrue': WhileTrue, 'dotformat': DotFormat,
            'listcopy': ListCopy, 'eafp': Eafp, 'filterloop': FilterLoop, 'closure': Closure, 'annotate': Annotate,
            'require': Require, 'demorgan': DeMorgan, 'findin': FindIn, 'duptail': DupTail}


def apply(name, src):
    # `a+b+c` applies the rewrites one after the other
    for one in name.split('+'):
        tree = ast.parse(src)
        T = REWRITES[one]
        if T is not None:
            tree = T().visit(tree)
        ast.fix_missing_locations(tree)
        src = ast.unparse(tree) + '\n'
    return src


def run_one(name):
    tmp = tempfile.mkdtemp(prefix='ttsa-rw-')
    try:
        os.makedirs(os.path.join(tmp, 'trees'))
        for fn in sorted(os.listdir(os.path.join(REPO, 'trees'))):
            if fn.endswith('.py'):
                with open(os.path.join(REPO, 'trees', fn), encoding='utf-8') as f:
                    src = f.read()
                import warnings
                with warnings.catch_warnings():
                    warnings.simplefilter('ignore')
                    out = apply(name, src)
                    compile(out, fn, 'exec')
                with open(os.path.join(tmp, 'trees', fn), 'w', encoding='utf-8') as f:
                    f.write(out)
        shutil.copy(os.path.join(REPO, 'treetools'), tmp)
        from ttsa.core import Program, AnalysisError
        from ttsa import props
        import check
        P = Program(repo=tmp)
        cache = {}
        res = {}
        for pid in sorted(props.PROPS):
            try:
                obs, _, _, errors = check.evaluate(pid, 'quick', P, cache)
                bad = [o for o in obs if not o.ok]
                if bad or errors:
                    res[pid] = ['%s %s:%d %s -> %s' % (o.rule, o.site, o.line, o.what[:70], o.detail[:110]) for o in bad] + \
                               ['ANALYSIS-ERROR ' + e for e in errors]
            except Exception as e:
                res[pid] = ['CRASH %r' % e]
        if os.environ.get('KEEP'):
            print('kept', tmp)
        return name, res
    finally:
        if not os.environ.get('KEEP'):
            shutil.rmtree(tmp, ignore_errors=True)


def breaking_under(args):
    combo, patch = args
    import subprocess
    name = os.path.basename(os.path.dirname(patch))
    pid = name.split('-')[0]
    tmp = tempfile.mkdtemp(prefix='ttsa-rwm-')
    try:
        shutil.copytree(os.path.join(REPO, 'trees'), os.path.join(tmp, 'trees'), ignore=shutil.ignore_patterns('__pycache__'))
        shutil.copy(os.path.join(REPO, 'treetools'), tmp)
        with open(patch) as f:
            if subprocess.run(['patch', '-p1', '-s', '-f', '-d', tmp], stdin=f, stdout=subprocess.DEVNULL,
                              stderr=subprocess.DEVNULL).returncode != 0:
                return name, None
        import warnings
        for fn in sorted(os.listdir(os.path.join(tmp, 'trees'))):
            if fn.endswith('.py'):
                pth = os.path.join(tmp, 'trees', fn)
                with open(pth, encoding='utf-8') as fh:
                    src = fh.read()
                with warnings.catch_warnings():
                    warnings.simplefilter('ignore')
                    try:
                        out = apply(combo, src)
                        compile(out, fn, 'exec')
                    except Exception:
                        return name, None
                with open(pth, 'w', encoding='utf-8') as fh:
                    fh.write(out)
        from ttsa.core import Program
        import check
        try:
            obs, _, _, errors = check.evaluate(pid, 'quick', Program(repo=tmp), {})
        except Exception:
            return name, False
        return name, any(not o.ok for o in obs)
    finally:
        shutil.rmtree(tmp, ignore_errors=True)


def main():
    names = sys.argv[1:] or sorted(REWRITES)
    if names and names[0] == '--breaking':
        # `--breaking a+b+c`: every confirmed breaking change of seeded/, then the rewrites on top: is it still reported?
        import glob
        combo = names[1]
        patches = sorted(glob.glob(os.path.join(os.path.dirname(HERE), 'seeded', 'C*-m*', 'patch.diff')))
        with Pool(16) as pool:
            res = pool.map(breaking_under, [(combo, p_) for p_ in patches])
        fit = [(n_, h_) for n_, h_ in res if h_ is not None]
        print('%s: %d breaking changes rewritten, %d reported by their own check' % (combo, len(fit), sum(1 for _, h_ in fit if h_)))
        return 0
    if names and names[0] == '--combos':
        # `--combos K [seed]`: K random sequences of six different rewrites each
        import random
        k = int(names[1]) if len(names) > 1 else 8
        rnd = random.Random(int(names[2]) if len(names) > 2 else 1)
        names = ['+'.join(rnd.sample(sorted(REWRITES), 6)) for _ in range(k)]
    with Pool(min(8, len(names))) as pool:
        results = pool.map(run_one, names)
    fragile = 0
    for name, res in results:
        print('%-8s %s' % (name if len(name) < 40 else name, 'silent' if not res else 'FRAGILE: ' + ' '.join(sorted(res))))
        if res:
            fragile += 1
            if os.environ.get('V'):
                seen = set()
                for pid in sorted(res):
                    for line in res[pid]:
                        if line not in seen:
                            seen.add(line)
                            print('      ' + line)
    print('%d of %d rewrites raise an alarm' % (fragile, len(results)))
    return fragile


if __name__ == '__main__':
    main()
