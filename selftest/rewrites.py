#!/venv/bin/python
"""Behaviour-preserving rewrites of /repo's current tree; the checks must stay silent on each.

  alpha     rename every non-parameter local of every function (x -> x_r)
  flip      a > b -> b < a, a >= b -> b <= a (and back for < / <=)
  notin     `not x in y` <-> `x not in y`; `== None` <-> `is None`; `!= None` <-> `is not None`
  noop      a `pass` at the start of every function body and loop body
  unparse   whole files re-printed by ast.unparse (quotes, parentheses, line numbers change)
  docs      every docstring replaced, a logging-style no-op call added to every function

Informational (measures the checker, never decides a property): prints per rewrite the properties whose
check raised a violation or an analysis error (expected: none).
"""
import ast
import os
import shutil
import sys
import tempfile
from multiprocessing import Pool

HERE = os.path.dirname(os.path.abspath(__file__))
sys.path.insert(0, os.path.dirname(HERE))
REPO = os.environ.get('TTSA_REPO', '/repo')


class Alpha(ast.NodeTransformer):
    def visit_FunctionDef(self, node):
        params = set(a.arg for a in node.args.posonlyargs + node.args.args + node.args.kwonlyargs)
        if node.args.vararg:
            params.add(node.args.vararg.arg)
        if node.args.kwarg:
            params.add(node.args.kwarg.arg)
        stores = set()
        for n in ast.walk(node):
            if n is node:
                continue
            if isinstance(n, (ast.FunctionDef, ast.ClassDef, ast.Lambda)):
                continue
            if isinstance(n, ast.Name) and isinstance(n.ctx, (ast.Store, ast.Del)):
                stores.add(n.id)
            if isinstance(n, ast.ExceptHandler) and n.name:
                stores.add(n.name)
        # lambda parameters stay as they are
        lam = set()
        for n in ast.walk(node):
            if isinstance(n, ast.Lambda):
                for a in n.args.args:
                    lam.add(a.arg)
        ren = dict((s, s + '_r') for s in stores - params - lam if s != node.name)

        class R(ast.NodeTransformer):
            def visit_Name(self, n):
                if n.id in ren:
                    return ast.copy_location(ast.Name(id=ren[n.id], ctx=n.ctx), n)
                return n

            def visit_ExceptHandler(self, n):
                self.generic_visit(n)
                if n.name in ren:
                    n.name = ren[n.name]
                return n

            def visit_FunctionDef(self, n):
                return n
        node.body = [R().visit(st) for st in node.body]
        return node


class Flip(ast.NodeTransformer):
    M = {ast.Gt: ast.Lt, ast.GtE: ast.LtE, ast.Lt: ast.Gt, ast.LtE: ast.GtE}

    def visit_Compare(self, node):
        self.generic_visit(node)
        if len(node.ops) == 1 and type(node.ops[0]) in self.M:
            return ast.copy_location(ast.Compare(left=node.comparators[0], ops=[self.M[type(node.ops[0])]()],
                                                 comparators=[node.left]), node)
        return node


class NotIn(ast.NodeTransformer):
    def visit_UnaryOp(self, node):
        self.generic_visit(node)
        if isinstance(node.op, ast.Not) and isinstance(node.operand, ast.Compare) and len(node.operand.ops) == 1 \
                and isinstance(node.operand.ops[0], ast.In):
            c = node.operand
            return ast.copy_location(ast.Compare(left=c.left, ops=[ast.NotIn()], comparators=c.comparators), node)
        return node

    def visit_Compare(self, node):
        self.generic_visit(node)
        if len(node.ops) == 1:
            r = node.comparators[0]
            if isinstance(r, ast.Constant) and r.value is None:
                if isinstance(node.ops[0], ast.Eq):
                    node.ops = [ast.Is()]
                elif isinstance(node.ops[0], ast.NotEq):
                    node.ops = [ast.IsNot()]
                elif isinstance(node.ops[0], ast.Is):
                    node.ops = [ast.Eq()]
                elif isinstance(node.ops[0], ast.IsNot):
                    node.ops = [ast.NotEq()]
            elif isinstance(node.ops[0], ast.NotIn):
                return ast.copy_location(ast.UnaryOp(op=ast.Not(), operand=ast.Compare(
                    left=node.left, ops=[ast.In()], comparators=node.comparators)), node)
        return node


class Noop(ast.NodeTransformer):
    def _body(self, body):
        i = 1 if body and isinstance(body[0], ast.Expr) and isinstance(body[0].value, ast.Constant) \
            and isinstance(body[0].value.value, str) else 0
        return body[:i] + [ast.Pass()] + body[i:]

    def visit_FunctionDef(self, node):
        self.generic_visit(node)
        node.body = self._body(node.body)
        return node

    def visit_For(self, node):
        self.generic_visit(node)
        node.body = self._body(node.body)
        return node

    def visit_While(self, node):
        self.generic_visit(node)
        node.body = self._body(node.body)
        return node


class Docs(ast.NodeTransformer):
    def visit_FunctionDef(self, node):
        self.generic_visit(node)
        call = ast.Expr(ast.Call(func=ast.Name(id='repr', ctx=ast.Load()),
                                 args=[ast.Constant('enter ' + node.name)], keywords=[]))
        if node.body and isinstance(node.body[0], ast.Expr) and isinstance(node.body[0].value, ast.Constant) \
                and isinstance(node.body[0].value.value, str):
            keep = node.body[0].value.value
            # keep documented headings that the usage output prints, change the rest of the text
            node.body[0] = ast.Expr(ast.Constant(keep + '\n\n    (reviewed)\n    '))
            node.body = [node.body[0], call] + node.body[1:]
        else:
            node.body = [call] + node.body
        return node


REWRITES = {'alpha': Alpha, 'flip': Flip, 'notin': NotIn, 'noop': Noop, 'docs': Docs, 'unparse': None}


def apply(name, src):
    tree = ast.parse(src)
    T = REWRITES[name]
    if T is not None:
        tree = T().visit(tree)
    ast.fix_missing_locations(tree)
    return ast.unparse(tree) + '\n'


def run_one(name):
    tmp = tempfile.mkdtemp(prefix='ttsa-rw-')
    try:
        os.makedirs(os.path.join(tmp, 'trees'))
        for fn in sorted(os.listdir(os.path.join(REPO, 'trees'))):
            if fn.endswith('.py'):
                with open(os.path.join(REPO, 'trees', fn), encoding='utf-8') as f:
                    src = f.read()
                import warnings
                with warnings.catch_warnings():
                    warnings.simplefilter('ignore')
                    out = apply(name, src)
                    compile(out, fn, 'exec')
                with open(os.path.join(tmp, 'trees', fn), 'w', encoding='utf-8') as f:
                    f.write(out)
        shutil.copy(os.path.join(REPO, 'treetools'), tmp)
        from ttsa.core import Program, AnalysisError
        from ttsa import props
        import check
        P = Program(repo=tmp)
        cache = {}
        res = {}
        for pid in sorted(props.PROPS):
            try:
                obs, _, _, errors = check.evaluate(pid, 'quick', P, cache)
                bad = [o for o in obs if not o.ok]
                if bad or errors:
                    res[pid] = ['%s %s:%d %s -> %s' % (o.rule, o.site, o.line, o.what[:70], o.detail[:110]) for o in bad] + \
                               ['ANALYSIS-ERROR ' + e for e in errors]
            except Exception as e:
                res[pid] = ['CRASH %r' % e]
        if os.environ.get('KEEP'):
            print('kept', tmp)
        return name, res
    finally:
        if not os.environ.get('KEEP'):
            shutil.rmtree(tmp, ignore_errors=True)


def main():
    names = sys.argv[1:] or sorted(REWRITES)
    with Pool(min(8, len(names))) as pool:
        results = pool.map(run_one, names)
    fragile = 0
    for name, res in results:
        print('%-8s %s' % (name, 'silent' if not res else 'FRAGILE: ' + ' '.join(sorted(res))))
        if res:
            fragile += 1
            if os.environ.get('V'):
                seen = set()
                for pid in sorted(res):
                    for line in res[pid]:
                        if line not in seen:
                            seen.add(line)
                            print('      ' + line)
    print('%d of %d rewrites raise an alarm' % (fragile, len(results)))
    return fragile


if __name__ == '__main__':
    main()
