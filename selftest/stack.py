#!/venv/bin/python
"""Stacked refactorings: apply as many of the confirmed behaviour-preserving changes of seeded/ as fit on top of each
other (random order per seed) to a scratch copy of the package and run all twenty checks on the result.  Every check
must stay silent; the number of undecided obligations shows how much of the heavily reshaped code is still decided.

    selftest/stack.py [seed ...]        (default seeds 1..8; scratch copies under mkdtemp, removed afterwards)
    STACK_REWRITES=1 selftest/stack.py ...   additionally applies six random whole-package rewrites on top of each stack
    selftest/stack.py --breaking seed   on top of one stack, each confirmed BREAKING change that still applies is applied
                                        alone and the check of its own property is run: how much of the detection
                                        survives when the code around the defect has been refactored
"""
import glob
import os
import random
import shutil
import subprocess
import sys
import tempfile
from multiprocessing import Pool

HERE = os.path.dirname(os.path.abspath(__file__))
ROOT = os.path.dirname(HERE)
REPO = os.environ.get('TTSA_REPO', '/repo')


def _compiles(d):
    for fn in os.listdir(os.path.join(d, 'trees')):
        if fn.endswith('.py'):
            try:
                with open(os.path.join(d, 'trees', fn), encoding='utf-8') as fh:
                    compile(fh.read(), fn, 'exec')
            except SyntaxError:
                return False
    return True


def one(seed):
    d = tempfile.mkdtemp(prefix='ttsa-stack-')
    try:
        shutil.copytree(os.path.join(REPO, 'trees'), os.path.join(d, 'trees'),
                        ignore=shutil.ignore_patterns('__pycache__'))
        shutil.copy(os.path.join(REPO, 'treetools'), d)
        patches = sorted(glob.glob(os.path.join(ROOT, 'seeded', 'C*-r*', 'patch.diff')))
        random.Random(seed).shuffle(patches)
        applied = []
        for p in patches:
            with open(p) as f:
                if subprocess.run(['patch', '-p1', '-s', '-f', '--dry-run', '-d', d], stdin=f,
                                  stdout=subprocess.DEVNULL, stderr=subprocess.DEVNULL).returncode != 0:
                    continue
            with open(p) as f:
                subprocess.run(['patch', '-p1', '-s', '-f', '-d', d], stdin=f, stdout=subprocess.DEVNULL,
                               stderr=subprocess.DEVNULL)
            if not _compiles(d):
                # applied with fuzz into something that is not Python any more: take it out again
                with open(p) as f:
                    subprocess.run(['patch', '-p1', '-s', '-f', '-R', '-d', d], stdin=f, stdout=subprocess.DEVNULL,
                                   stderr=subprocess.DEVNULL)
                if not _compiles(d):
                    return seed, len(applied), 0, 0, ['stack of patches does not compile after %s' % p], 2
                continue
            applied.append(os.path.basename(os.path.dirname(p)))
        for junk in glob.glob(os.path.join(d, 'trees', '*.orig')) + glob.glob(os.path.join(d, 'trees', '*.rej')):
            os.remove(junk)
        if os.environ.get('STACK_REWRITES'):
            # on top of the stack: a random sequence of six whole-package rewrites (selftest/rewrites.py)
            sys.path.insert(0, HERE)
            import rewrites
            import warnings
            combo = '+'.join(random.Random(seed * 7919).sample(sorted(rewrites.REWRITES), 6))
            for fn in sorted(os.listdir(os.path.join(d, 'trees'))):
                if fn.endswith('.py'):
                    pth = os.path.join(d, 'trees', fn)
                    with open(pth, encoding='utf-8') as fh:
                        src = fh.read()
                    with warnings.catch_warnings():
                        warnings.simplefilter('ignore')
                        out = rewrites.apply(combo, src)
                        compile(out, fn, 'exec')
                    with open(pth, 'w', encoding='utf-8') as fh:
                        fh.write(out)
        sys.path.insert(0, ROOT)
        from ttsa.core import Program, AnalysisError
        from ttsa import props
        import check
        und = obl = 0
        bad = []
        try:
            P = Program(repo=d)
        except Exception as e:
            return seed, len(applied), 0, 0, ['load error %r' % e], 2
        cache = {}
        for pid in sorted(props.PROPS):
            try:
                obs, _, _, errors = check.evaluate(pid, 'quick', P, cache)
            except AnalysisError as e:
                bad.append('ANALYSIS-ERROR %s %s' % (pid, e))
                continue
            obl += len(obs)
            und += sum(1 for o in obs if o.undecided)
            bad += ['VIOLATION %s %s %s: %s' % (pid, o.rule, o.site, o.detail[:120]) for o in obs if not o.ok]
            bad += ['ANALYSIS-ERROR %s %s' % (pid, e) for e in errors]
        return seed, len(applied), obl, und, bad, 1 if bad else 0
    finally:
        shutil.rmtree(d, ignore_errors=True)


def stacked_copy(seed):
    d = tempfile.mkdtemp(prefix='ttsa-stack-')
    shutil.copytree(os.path.join(REPO, 'trees'), os.path.join(d, 'trees'), ignore=shutil.ignore_patterns('__pycache__'))
    shutil.copy(os.path.join(REPO, 'treetools'), d)
    patches = sorted(glob.glob(os.path.join(ROOT, 'seeded', 'C*-r*', 'patch.diff')))
    random.Random(seed).shuffle(patches)
    n = 0
    for p in patches:
        with open(p) as f:
            if subprocess.run(['patch', '-p1', '-s', '-f', '--dry-run', '-d', d], stdin=f,
                              stdout=subprocess.DEVNULL, stderr=subprocess.DEVNULL).returncode != 0:
                continue
        with open(p) as f:
            subprocess.run(['patch', '-p1', '-s', '-f', '-d', d], stdin=f, stdout=subprocess.DEVNULL, stderr=subprocess.DEVNULL)
        if not _compiles(d):
            with open(p) as f:
                subprocess.run(['patch', '-p1', '-s', '-f', '-R', '-d', d], stdin=f, stdout=subprocess.DEVNULL,
                               stderr=subprocess.DEVNULL)
            continue
        n += 1
    for junk in glob.glob(os.path.join(d, 'trees', '*.orig')) + glob.glob(os.path.join(d, 'trees', '*.rej')):
        os.remove(junk)
    return d, n


def breaking_on(args):
    base, patch = args
    name = os.path.basename(os.path.dirname(patch))
    pid = name.split('-')[0]
    d = tempfile.mkdtemp(prefix='ttsa-stackm-')
    try:
        shutil.copytree(os.path.join(base, 'trees'), os.path.join(d, 'trees'))
        shutil.copy(os.path.join(base, 'treetools'), d)
        with open(patch) as f:
            if subprocess.run(['patch', '-p1', '-s', '-f', '--dry-run', '-F0', '-d', d], stdin=f,
                              stdout=subprocess.DEVNULL, stderr=subprocess.DEVNULL).returncode != 0:
                return name, None
        with open(patch) as f:
            subprocess.run(['patch', '-p1', '-s', '-f', '-F0', '-d', d], stdin=f, stdout=subprocess.DEVNULL, stderr=subprocess.DEVNULL)
        sys.path.insert(0, ROOT)
        from ttsa.core import Program
        import check
        try:
            obs, _, _, errors = check.evaluate(pid, 'quick', Program(repo=d), {})
        except Exception:
            return name, False
        return name, any(not o.ok for o in obs)
    finally:
        shutil.rmtree(d, ignore_errors=True)


def main():
    if sys.argv[1:2] == ['--breaking']:
        seed = int(sys.argv[2]) if len(sys.argv) > 2 else 1
        base, n = stacked_copy(seed)
        try:
            patches = sorted(glob.glob(os.path.join(ROOT, 'seeded', 'C*-m*', 'patch.diff')))
            with Pool(16) as pool:
                res = pool.map(breaking_on, [(base, p) for p in patches])
        finally:
            shutil.rmtree(base, ignore_errors=True)
        fit = [(nm, hit) for nm, hit in res if hit is not None]
        print('seed %d: %d refactorings stacked; %d of %d breaking changes still apply on top; %d of those reported by their '
              'own check' % (seed, n, len(fit), len(res), sum(1 for _, h in fit if h)))
        for nm, hit in fit:
            if not hit:
                print('      missed on the refactored tree: %s' % nm)
        return 0
    seeds = [int(x) for x in sys.argv[1:]] or list(range(1, 9))
    with Pool(min(8, len(seeds))) as pool:
        res = pool.map(one, seeds)
    alarms = 0
    for seed, n, obl, und, bad, rc in res:
        print('seed %-3d stacked=%-3d obligations=%-5d undecided=%-4d %s' % (seed, n, obl, und,
                                                                             'silent' if not bad else 'ALARM'))
        for b in bad:
            print('      ' + b)
        alarms += bool(bad)
    print('%d of %d stacks raise an alarm' % (alarms, len(res)))
    return 1 if alarms else 0


if __name__ == '__main__':
    sys.exit(main())
